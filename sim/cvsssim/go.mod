module cvsssim

go 1.23

require (
	github.com/goark/go-cvss v0.0.0
	golang.org/x/text v0.14.0
	simrt v0.0.0
)

require github.com/goark/errs v1.3.2 // indirect

replace github.com/goark/go-cvss => /repo

replace simrt => ../simrt
