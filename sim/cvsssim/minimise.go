package main

// minimise.go: delta debugging over a run description.  Every candidate is
// executed in a fresh process by the caller-supplied predicate.

import (
	"time"

	"simrt"
)

// ddmin removes chunks of n items while the predicate keeps holding.
func ddmin(n int, deadline time.Time, try func(keep []bool) bool) []bool {
	keep := make([]bool, n)
	for i := range keep {
		keep[i] = true
	}
	count := func() int {
		c := 0
		for _, k := range keep {
			if k {
				c++
			}
		}
		return c
	}
	chunk := (count() + 1) / 2
	for chunk >= 1 && time.Now().Before(deadline) {
		removedAny := false
		// indices currently kept
		var idx []int
		for i, k := range keep {
			if k {
				idx = append(idx, i)
			}
		}
		for s := 0; s < len(idx) && time.Now().Before(deadline); s += chunk {
			e := s + chunk
			if e > len(idx) {
				e = len(idx)
			}
			cand := append([]bool{}, keep...)
			for _, i := range idx[s:e] {
				cand[i] = false
			}
			if try(cand) {
				keep = cand
				removedAny = true
			}
		}
		if !removedAny || chunk == 1 {
			if chunk == 1 {
				if !removedAny {
					break
				}
				continue
			}
			chunk = (chunk + 1) / 2
		}
	}
	return keep
}

func minimise(d *RunDesc, fails func(*RunDesc) bool, deadline time.Time) *RunDesc {
	cur := d.clone()

	// 1. drop operations (task by task, then individually)
	type pos struct{ t, i int }
	var all []pos
	for t := range cur.Tasks {
		for i := range cur.Tasks[t] {
			all = append(all, pos{t, i})
		}
	}
	build := func(base *RunDesc, keep []bool) *RunDesc {
		c := base.clone()
		for t := range c.Tasks {
			c.Tasks[t] = c.Tasks[t][:0]
		}
		for j, p := range all {
			if keep[j] {
				c.Tasks[p.t] = append(c.Tasks[p.t], base.Tasks[p.t][p.i])
			}
		}
		for t := range c.Tasks {
			if c.Tasks[t] == nil {
				c.Tasks[t] = []Op{}
			}
		}
		return c
	}
	if len(all) > 1 {
		base := cur
		keep := ddmin(len(all), deadline, func(k []bool) bool { return fails(build(base, k)) })
		cur = build(base, keep)
	}

	// 1b. blank shared-world entries no remaining operation refers to (indices stay)
	if len(cur.World) > 0 && time.Now().Before(deadline) {
		usedObj := map[int]bool{}
		usedRep := map[int]bool{}
		for _, t := range cur.Tasks {
			for _, op := range t {
				if op.Obj != nil && op.Obj.Shared {
					usedObj[op.Obj.I] = true
				}
				if op.Donor != nil && op.Donor.Shared {
					usedObj[op.Donor.I] = true
				}
				if op.Rep != nil && op.Rep.Shared {
					usedRep[op.Rep.I] = true
				}
			}
		}
		c := cur.clone()
		for i := range c.WorldReps {
			if usedRep[i] {
				usedObj[c.WorldReps[i].Obj] = true
			} else {
				c.WorldReps[i].Obj = -1
			}
		}
		changed := false
		for i := range c.World {
			if !usedObj[i] && c.World[i].Vec != "" {
				c.World[i].Vec = ""
				changed = true
			}
		}
		if changed && fails(c) {
			cur = c
		}
	}

	// 2. drop context switches (prefer fewer)
	if len(cur.Sched.Explicit) > 0 {
		base := cur
		sw := base.Sched.Explicit
		mk := func(k []bool) *RunDesc {
			c := base.clone()
			c.Sched.Explicit = nil
			for j, s := range sw {
				if k[j] {
					c.Sched.Explicit = append(c.Sched.Explicit, s)
				}
			}
			return c
		}
		// first: none at all
		none := make([]bool, len(sw))
		if fails(mk(none)) {
			cur = mk(none)
		} else {
			keep := ddmin(len(sw), deadline, func(k []bool) bool { return fails(mk(k)) })
			cur = mk(keep)
		}
	}

	// 3. simpler map order
	if cur.MapPolicy != simrt.MapCanonical && time.Now().Before(deadline) {
		c := cur.clone()
		c.MapPolicy = simrt.MapCanonical
		if fails(c) {
			cur = c
		} else {
			c = cur.clone()
			c.MapPolicy = simrt.MapReversed
			if cur.MapPolicy != simrt.MapReversed && fails(c) {
				cur = c
			}
		}
	}

	// 4. drop shared world entries that are not needed (replace by nothing is not
	// possible without renumbering; instead simplify fault scripts and sweeps)
	for t := range cur.Tasks {
		for i := range cur.Tasks[t] {
			if !time.Now().Before(deadline) {
				return cur
			}
			op := cur.Tasks[t][i]
			if op.Fault != nil && (len(op.Fault.Chunks) > 0 || op.Fault.EOFWithData || op.Fault.WriterTo) {
				c := cur.clone()
				f := *op.Fault
				f.Chunks, f.EOFWithData, f.WriterTo = nil, false, false
				c.Tasks[t][i].Fault = &f
				if fails(c) {
					cur = c
				}
			}
			if op.Sweep {
				c := cur.clone()
				c.Tasks[t][i].Sweep = false
				if fails(c) {
					cur = c
				}
			}
		}
	}

	// 5. shrink strings (templates, vectors) by deleting chunks
	for t := range cur.Tasks {
		for i := range cur.Tasks[t] {
			for _, which := range []int{0, 1} {
				get := func(o *Op) *string {
					if which == 0 {
						return &o.Tmpl
					}
					return &o.Vec
				}
				s := *get(&cur.Tasks[t][i])
				if len(s) < 2 || len(s) > 4096 {
					continue
				}
				for chunk := len(s) / 2; chunk >= 1 && time.Now().Before(deadline); chunk /= 2 {
					for off := 0; off+chunk <= len(s) && time.Now().Before(deadline); {
						cand := s[:off] + s[off+chunk:]
						c := cur.clone()
						*get(&c.Tasks[t][i]) = cand
						if fails(c) {
							cur = c
							s = cand
						} else {
							off += chunk
						}
					}
				}
			}
		}
	}
	return cur
}
