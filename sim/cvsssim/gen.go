package main

// gen.go: seeded generators for vectors, templates and fault scripts.  Every
// choice comes from an rng derived from the run seed; nothing here reads a clock,
// a Go map in iteration order, or math/rand.

import (
	"strings"

	"simrt"
)

type rng struct{ s uint64 }

func newRng(seed uint64) *rng { return &rng{s: seed} }
func (r *rng) u64() uint64    { return simrt.SplitMixNext(&r.s) }
func (r *rng) intn(n int) int {
	if n <= 0 {
		return 0
	}
	return int(r.u64() % uint64(n))
}
func (r *rng) chance(num, den int) bool { return r.intn(den) < num }
func (r *rng) between(lo, hi int) int   { return lo + r.intn(hi-lo+1) }
func (r *rng) fork(tag uint64) *rng     { return newRng(simrt.Mix(r.u64(), tag)) }

func pick[T any](r *rng, xs []T) T { return xs[r.intn(len(xs))] }

func shuffle[T any](r *rng, xs []T) {
	for i := len(xs) - 1; i > 0; i-- {
		j := r.intn(i + 1)
		xs[i], xs[j] = xs[j], xs[i]
	}
}

type metricDef struct {
	name string
	vals []string
}

// Names and value codes of the metrics, needed to *build inputs*.  No weight,
// score or display name appears anywhere in the harness (DESIGN 2.5).
var (
	v3BaseDefs = []metricDef{
		{"AV", []string{"N", "A", "L", "P"}}, {"AC", []string{"L", "H"}}, {"PR", []string{"N", "L", "H"}},
		{"UI", []string{"N", "R"}}, {"S", []string{"U", "C"}}, {"C", []string{"H", "L", "N"}},
		{"I", []string{"H", "L", "N"}}, {"A", []string{"H", "L", "N"}},
	}
	v3TempDefs = []metricDef{
		{"E", []string{"X", "H", "F", "P", "U"}}, {"RL", []string{"X", "U", "W", "T", "O"}}, {"RC", []string{"X", "C", "R", "U"}},
	}
	v3EnvDefs = []metricDef{
		{"CR", []string{"X", "H", "M", "L"}}, {"IR", []string{"X", "H", "M", "L"}}, {"AR", []string{"X", "H", "M", "L"}},
		{"MAV", []string{"X", "N", "A", "L", "P"}}, {"MAC", []string{"X", "L", "H"}}, {"MPR", []string{"X", "N", "L", "H"}},
		{"MUI", []string{"X", "N", "R"}}, {"MS", []string{"X", "U", "C"}}, {"MC", []string{"X", "H", "L", "N"}},
		{"MI", []string{"X", "H", "L", "N"}}, {"MA", []string{"X", "H", "L", "N"}},
	}
	v2BaseDefs = []metricDef{
		{"AV", []string{"L", "A", "N"}}, {"AC", []string{"H", "M", "L"}}, {"Au", []string{"M", "S", "N"}},
		{"C", []string{"N", "P", "C"}}, {"I", []string{"N", "P", "C"}}, {"A", []string{"N", "P", "C"}},
	}
	v2TempDefs = []metricDef{
		{"E", []string{"ND", "U", "POC", "F", "H"}}, {"RL", []string{"ND", "OF", "TF", "W", "U"}}, {"RC", []string{"ND", "UC", "UR", "C"}},
	}
	v2EnvDefs = []metricDef{
		{"CDP", []string{"ND", "N", "L", "LM", "MH", "H"}}, {"TD", []string{"ND", "N", "L", "M", "H"}},
		{"CR", []string{"ND", "L", "M", "H"}}, {"IR", []string{"ND", "L", "M", "H"}}, {"AR", []string{"ND", "L", "M", "H"}},
	}
)

func tokensOf(r *rng, defs []metricDef) []string {
	out := make([]string, len(defs))
	for i, d := range defs {
		out[i] = d.name + ":" + pick(r, d.vals)
	}
	return out
}

// notDefinedTokens: every metric of an optional group spelled out with its
// "not defined" code (the first code of each optional metric: X / ND) - the
// shape tools emit by default.
func notDefinedTokens(defs []metricDef) []string {
	out := make([]string, len(defs))
	for i, d := range defs {
		out[i] = d.name + ":" + d.vals[0]
	}
	return out
}

// vecShape describes what a generated vector contains (used by C12 to know
// which v2 groups are present; never by an oracle that needs CVSS semantics).
type vecShape struct {
	HasTemporal bool
	HasEnv      bool
}

// genValidVector builds a vector that is well-formed for decoder kind k by the
// published grammar.  Whether the library accepts it is up to the library.
func genValidVector(r *rng, k int) (string, vecShape) {
	var sh vecShape
	lvl := kindLevel(k)
	allND := r.chance(1, 7) // optional groups present but entirely "not defined"
	if kindIsV2(k) {
		toks := tokensOf(r, v2BaseDefs)
		if lvl >= 1 && (allND || r.chance(2, 3)) {
			if allND || r.chance(1, 8) {
				toks = append(toks, notDefinedTokens(v2TempDefs)...)
			} else {
				toks = append(toks, tokensOf(r, v2TempDefs)...)
			}
			sh.HasTemporal = true
		}
		if lvl >= 2 && (allND || r.chance(2, 3)) {
			if allND || r.chance(1, 8) {
				toks = append(toks, notDefinedTokens(v2EnvDefs)...)
			} else {
				toks = append(toks, tokensOf(r, v2EnvDefs)...)
			}
			sh.HasEnv = true
		}
		return strings.Join(toks, "/"), sh
	}
	if allND {
		toks := tokensOf(r, v3BaseDefs)
		if lvl >= 1 {
			toks = append(toks, notDefinedTokens(v3TempDefs)...)
			sh.HasTemporal = true
		}
		if lvl >= 2 {
			toks = append(toks, notDefinedTokens(v3EnvDefs)...)
			sh.HasEnv = true
		}
		ver := "CVSS:3.1"
		if r.chance(1, 3) {
			ver = "CVSS:3.0"
		}
		return ver + "/" + strings.Join(toks, "/"), sh
	}
	toks := tokensOf(r, v3BaseDefs)
	full := r.chance(1, 8) // every optional metric present: the longest well-formed vector
	if lvl >= 1 {
		for _, t := range tokensOf(r, v3TempDefs) {
			if full || r.chance(2, 3) {
				toks = append(toks, t)
				sh.HasTemporal = true
			}
		}
	}
	if lvl >= 2 {
		for _, t := range tokensOf(r, v3EnvDefs) {
			if full || r.chance(1, 2) {
				toks = append(toks, t)
				sh.HasEnv = true
			}
		}
	}
	if r.chance(1, 3) {
		shuffle(r, toks)
	}
	ver := "CVSS:3.1"
	if r.chance(1, 3) {
		ver = "CVSS:3.0"
	}
	return ver + "/" + strings.Join(toks, "/"), sh
}

// lookupArgs: arguments for the Get* functions: every code of every metric plus
// near misses (suffix, prefix, case, blank).
var lookupArgs = func() []string {
	seen := map[string]bool{}
	var out []string
	add := func(s string) {
		if !seen[s] {
			seen[s] = true
			out = append(out, s)
		}
	}
	for _, defs := range [][]metricDef{v3BaseDefs, v3TempDefs, v3EnvDefs, v2BaseDefs, v2TempDefs, v2EnvDefs} {
		for _, d := range defs {
			for _, v := range d.vals {
				add(v)
				add(v + "x")
				add(v + v)
				add(" " + v)
				add(strings.ToLower(v))
			}
		}
	}
	for _, s := range []string{"", "3.0", "3.1", "3.2", "CVSS:3.0", "CVSS:3.1", "CVSS:3.1x", "CVSS:", "Z", "\x00"} {
		add(s)
	}
	return out
}()

var rawInputs = []string{
	"", ":", "/", "::", "//", ":/", "/:", "CVSS", "CVSS:", "CVSS:3.1", "CVSS:3.1/", "CVSS:3.1//", "CVSS:3.0/:", "CVSS:3.1/:",
	"CVSS:3.1/AV", "CVSS:3.1/AV:", "CVSS:3.1/:N", "AV", "AV:", ":N", "AV:N", "AV:N/", "/AV:N", "CVSS:3.1/AV:N:N",
	"CVSS:3.1:3.0/AV:N", "CVSS:2.0/AV:N", "CVSS:4.0/AV:N", "cvss:3.1/AV:N", " CVSS:3.1/AV:N", "CVSS:3.1 /AV:N",
	"\x00", "\xff", "CVSS:3.1/\x00:\x00", "CVSS:3.1/AV:\xff", "AV:N/AC:L/Au:N/C:P/I:P/A:P/", "AV:N/AC:L/Au:N/C:P/I:P/A:P//",
	"(AV:N/AC:L/Au:N/C:P/I:P/A:P)", "AV:N/AC:L/Au:N/C:P/I:P/A:P/E:F", "AV:N/AC:L/Au:N/C:P/I:P/A:P/CDP:H",
	"E:F/RL:OF/RC:C", "CDP:H/TD:H/CR:M/IR:M/AR:H", "CVSS:3.1/E:F", "CVSS:3.1/MAV:N",
}

// genVector returns a vector for decoder kind k: valid, a classified edit of a
// valid one, a vector of another kind, or raw bytes.  class names the recipe.
func genVector(r *rng, k int, big bool) (vec string, class string, sh vecShape) {
	switch c := r.intn(100); {
	case c < 38:
		v, s := genValidVector(r, k)
		return v, "valid", s
	case c < 45:
		v, cl := genAbortVector(r, k)
		return v, cl, vecShape{}
	case c < 55:
		// a valid vector of another kind/level/version
		ok := r.intn(NKinds)
		v, _ := genValidVector(r, ok)
		return v, "other-kind", vecShape{}
	case c < 62:
		if big && r.chance(1, 4) {
			return genBig(r), "big", vecShape{}
		}
		if r.chance(1, 4) {
			// a vector followed by padding that ends in a multi-byte character or a
			// run of continuation bytes, with the total length at or next to a
			// power-of-two boundary (truncation, abbreviation, fixed buffers)
			v, _ := genValidVector(r, k)
			target := pick(r, []int{32, 64, 128, 256, 512, 1024, 4096}) + r.between(-2, 3)
			tail := pick(r, []string{"é", "語", "😀", "\x80", "\xbf\xbf", "\x80\x80\x80\x80", "\xc3", "\xe8\xaa"})
			pad := target - len(v) - len(tail)
			sep := pick(r, []string{"/", " ", "/X:", "#"})
			if pad > len(sep) {
				v += sep + strings.Repeat(pick(r, []string{"a", "x", "/", ":", "\x80", "é"}), pad-len(sep))
				if len(v) > target-len(tail) {
					v = v[:target-len(tail)]
				}
			}
			return v + tail, "nonascii-tail", vecShape{}
		}
		if r.chance(1, 3) {
			// runs of separators / minimal tokens of every small length: token-count
			// and index arithmetic boundaries
			n := r.between(1, 40)
			unit := pick(r, []string{"/", ":", "/:", ":/", "/X:Y", "/A:B", "//", "/AV:N"})
			prefix := pick(r, []string{"", "CVSS:3.1", "CVSS:3.0", "AV:N"})
			return prefix + strings.Repeat(unit, n), "separator-run", vecShape{}
		}
		return pick(r, rawInputs), "raw", vecShape{}
	case c < 66:
		n := r.between(1, 24)
		b := make([]byte, n)
		alphabet := []byte("CVSS:3.1/AVNLPHXUaclu: /\x00\xff.01ES")
		for i := range b {
			b[i] = pick(r, alphabet)
		}
		return string(b), "random-bytes", vecShape{}
	}
	v, _ := genValidVector(r, k)
	toks := strings.Split(v, "/")
	idx := func() int {
		if kindIsV2(k) || len(toks) < 2 {
			return r.intn(len(toks))
		}
		return 1 + r.intn(len(toks)-1)
	}
	switch e := r.intn(19); e {
	case 0:
		i := idx()
		toks = append(toks[:i:i], toks[i+1:]...)
		class = "drop-token"
	case 1:
		i := idx()
		toks = append(toks, toks[i])
		class = "dup-token"
	case 2:
		i := idx()
		d := strings.SplitN(toks[i], ":", 2)
		j := r.intn(len(toks) + 1)
		nt := d[0] + ":" + d[len(d)-1]
		toks = append(toks[:j:j], append([]string{nt}, toks[j:]...)...)
		class = "dup-token-mid"
	case 3:
		i, j := idx(), idx()
		toks[i], toks[j] = toks[j], toks[i]
		class = "swap-tokens"
	case 4:
		i := idx()
		d := strings.SplitN(toks[i], ":", 2)
		toks[i] = pick(r, []string{"ZZ", "X", "av", "Av", "MAVV", "", "E", "CDP", "MS", "Au", "ıı", "ſſ", "Mſſ", "ıVı", "ßß", "ǅǅ", "İİ", "\u2c65\u2c65", "ﬁﬁ"}) + ":" + d[len(d)-1]
		class = "rename-metric"
	case 5:
		i := idx()
		d := strings.SplitN(toks[i], ":", 2)
		toks[i] = d[0] + ":" + pick(r, []string{"Z", "", "n", "NN", "0", "X", "ND", "H ", " H", "\x00"})
		class = "bad-value"
	case 6:
		i := idx()
		toks[i] = strings.ToLower(toks[i])
		class = "lower-token"
	case 7:
		i := idx()
		toks[i] = toks[i] + ":" + pick(r, []string{"", "N", "X"})
		class = "extra-colon"
	case 8:
		i := r.intn(len(toks) + 1)
		toks = append(toks[:i:i], append([]string{""}, toks[i:]...)...)
		class = "empty-token"
	case 9:
		pfx := pick(r, []string{"CVSS:3.2", "CVSS:2.0", "CVSS:3", "CVSS:3.1.0", "cvss:3.1", "CVSS3.1", "CVSS:", ":3.1", "CVSS:3.0:3.1", "CVSS:4.0"})
		if r.chance(1, 2) {
			// version numbers as a numeric parser might (mis)read them: signs, leading
			// zeros, exponents, overflow, other digit scripts, stray dots
			pfx = "CVSS:" + pick(r, versionNumberShapes)
		}
		toks[0] = pfx + func() string {
			if kindIsV2(k) {
				return "/" + toks[0]
			}
			return ""
		}()
		class = "bad-prefix"
	case 10:
		if !kindIsV2(k) {
			toks = toks[1:]
			if len(toks) == 0 {
				toks = []string{""}
			}
		} else {
			toks = append([]string{"CVSS:3.1"}, toks...)
		}
		class = "prefix-toggle"
	case 11:
		s := strings.Join(toks, "/")
		i := r.intn(len(s) + 1)
		return s[:i] + pick(r, []string{" ", "\t", "\n", "\x00", "/", ":", "é", "日", "\ufeff", "\u2028", "ſ", "K", "\xc3", "\xe6\x97", "%", "\\", "\r"}) + s[i:], "insert-byte", vecShape{}
	case 12:
		s := strings.Join(toks, "/")
		return s[:r.intn(len(s)+1)], "truncate", vecShape{}
	case 13:
		s := []byte(strings.Join(toks, "/"))
		if len(s) > 0 {
			s[r.intn(len(s))] = pick(r, []byte{0, 0xff, ' ', ':', '/', 'x', 'N'})
		}
		return string(s), "replace-byte", vecShape{}
	case 16, 17, 18:
		// an optional (temporal / environmental) metric with a value that is no
		// code: the aborted decode leaves a receiver whose optional field holds its
		// invalid value
		var opt []metricDef
		lvl := kindLevel(k)
		if lvl == 0 {
			lvl = 1 + r.intn(2) // fed to a base decoder it is simply an unsupported metric
		}
		if kindIsV2(k) {
			opt = append(opt, v2TempDefs...)
			if lvl >= 2 {
				opt = append(opt, v2EnvDefs...)
			}
		} else {
			opt = append(opt, v3TempDefs...)
			if lvl >= 2 {
				opt = append(opt, v3EnvDefs...)
			}
		}
		d := pick(r, opt)
		bad := pick(r, []string{"Z", "x", "0", "XX", "?", "Q", pick(r, d.vals) + "x", "n"})
		// replace the token if present, else insert it somewhere after the first token
		placed := false
		for i, t := range toks {
			if strings.HasPrefix(t, d.name+":") {
				toks[i] = d.name + ":" + bad
				placed = true
				break
			}
		}
		if !placed {
			i := 1 + r.intn(len(toks))
			toks = append(toks[:i:i], append([]string{d.name + ":" + bad}, toks[i:]...)...)
		}
		class = "bad-optional-value"
	case 14:
		// metric of a higher level appended
		var extra []metricDef
		if kindIsV2(k) {
			extra = append(append([]metricDef{}, v2TempDefs...), v2EnvDefs...)
		} else {
			extra = append(append([]metricDef{}, v3TempDefs...), v3EnvDefs...)
		}
		d := pick(r, extra)
		toks = append(toks, d.name+":"+pick(r, d.vals))
		class = "higher-level-metric"
	default:
		// partial group (v2) / one more optional metric with X
		if kindIsV2(k) {
			d := pick(r, append(append([]metricDef{}, v2TempDefs...), v2EnvDefs...))
			toks = append(toks, d.name+":"+pick(r, d.vals))
		} else {
			d := pick(r, append(append([]metricDef{}, v3TempDefs...), v3EnvDefs...))
			toks = append(toks, d.name+":X")
		}
		class = "partial-group"
	}
	return strings.Join(toks, "/"), class, vecShape{}
}

// genAbortVector builds an input whose decode fails after part of the receiver
// has been filled in: a bad value in an optional metric, a duplicate or an
// unsupported metric at the end, a missing base metric, a misordered v2 vector.
var versionNumberShapes = []string{
	"3.-1", "3.+1", "3.-0", "3.+0", "-3.1", "+3.1", "-3.0", "3.01", "3.00", "03.1", "03.0", "3.10", "3.11", "3.9", "3.2",
	"3.1e0", "3e0.1", "3.0x1", "0x3.1", "3.1_0", "3_0.1", "3. 1", " 3.1", "3.1 ", "3..1", "3.", ".1", ".", "3,1", "3.1.", "3.-",
	"3.99999999999999999999", "3.4294967297", "3.18446744073709551617", "3.-2147483648", "3.-9223372036854775808", "4294967299.1",
	"3.\u0661", "\uff13.1", "3.\uff11", "\u0663.\u0661", "3.\u00b9", "3.1\x00", "3.\x001", "3.0\u200b", "3.1\ufeff", "3.1:", "3.1:0",
	"3.a", "3.A", "3.x", "3.N", "III.I", "3.١", "NaN.1", "3.Inf", "1e1000.0",
}

func genAbortVector(r *rng, k int) (string, string) {
	v, _ := genValidVector(r, k)
	toks := strings.Split(v, "/")
	lvl := kindLevel(k)
	var opt []metricDef
	if kindIsV2(k) {
		opt = append(opt, v2TempDefs...)
		if lvl >= 2 {
			opt = append(opt, v2EnvDefs...)
		}
	} else {
		opt = append(opt, v3TempDefs...)
		if lvl >= 2 {
			opt = append(opt, v3EnvDefs...)
		}
	}
	switch c := r.intn(6); {
	case c <= 1 && lvl >= 1:
		d := pick(r, opt)
		bad := pick(r, []string{"Z", "x", "0", "XX", "?"})
		for i, t := range toks {
			if strings.HasPrefix(t, d.name+":") {
				toks[i] = d.name + ":" + bad
				return strings.Join(toks, "/"), "abort-bad-optional"
			}
		}
		return strings.Join(append(toks, d.name+":"+bad), "/"), "abort-bad-optional"
	case c == 2:
		i := len(toks) - 1
		if i > 0 {
			i = 1 + r.intn(len(toks)-1)
		}
		return strings.Join(append(toks, toks[i]), "/"), "abort-dup-at-end"
	case c == 3:
		return strings.Join(append(toks, "ZZ:1"), "/"), "abort-unsupported-at-end"
	case c == 4:
		// drop one base metric, keep everything else
		i := r.intn(len(toks))
		if !kindIsV2(k) && i == 0 {
			i = 1
		}
		return strings.Join(append(toks[:i:i], toks[i+1:]...), "/"), "abort-missing-metric"
	default:
		if len(toks) > 2 {
			i := len(toks) - 1
			j := 1 + r.intn(i-1)
			toks[i], toks[j] = toks[j], toks[i]
		}
		return strings.Join(toks, "/"), "abort-reordered"
	}
}

func genBig(r *rng) string {
	n := 1 << uint(r.between(10, 16))
	if r.chance(1, 40) {
		n = 1 << uint(r.between(18, 22)) // up to 4 MiB
	}
	switch r.intn(5) {
	case 0:
		return strings.Repeat("/", n)
	case 1:
		return strings.Repeat(":", n)
	case 2:
		return "CVSS:3.1/" + strings.Repeat("AV:N/", n/5)
	case 3:
		return "CVSS:3.1/AV:N/AC:L/PR:N/UI:N/S:U/C:H/I:H/A:H/" + strings.Repeat("ZZ:1/", n/5)
	default:
		return "AV:N/AC:L/Au:N/C:P/I:P/A:P/" + strings.Repeat("Q:1/", n/4)
	}
}
