package main

// exec.go: executes operations against the (instrumented) library and renders
// every result canonically.

import (
	"bytes"
	"fmt"
	"io"
	"reflect"
	"runtime"
	"strconv"
	"strings"
	"text/template"
	"time"

	"simrt"
)

type slotObj struct {
	kind    int
	res     any   // what Decode returned (typed pointer, possibly nil)
	recv    any   // the receiver Decode was called on (typed nil when NilRecv)
	err     error // what Decode returned
	origin  string
	vec     string
	nilrecv bool
	hasTemp bool
	hasEnv  bool
	steps   []stateStep // state-changing operations after the first decode
	// inner != "": this slot holds only the embedded lower-level object of a decoded
	// Temporal/Environmental object ("Base" / "Temporal"), whose owner nobody
	// references any more; parent is how to rebuild it
	inner  string
	parent *slotObj
}

// stateStep is a re-decode or a field assignment applied to an object; the
// history oracles replay them on a twin.
type stateStep struct {
	redec bool
	vec   string
	field fieldRef
	val   int64
}

// current returns the object a slot stands for when it is used as a receiver
// or assigned to: the receiver of its decodes, or (nil-receiver decode) the result.
func (s *slotObj) current() any {
	if !isNilObj(s.recv) {
		return s.recv
	}
	return s.res
}

func (s *slotObj) applyStep(st stateStep) string {
	cur := s.current()
	if isNilObj(cur) {
		return "skip"
	}
	if st.redec {
		res, err := decodeWith(cur, st.vec)
		s.recv = cur
		s.res, s.err = res, err
		s.origin += "|redec=" + strconv.Quote(st.vec)
		return "redec:" + errClass(err) + " same-object=" + strconv.FormatBool(isNilObj(res) || res == cur) + " " + snapshot(cur)
	}
	fv, ok := fieldValue(cur, st.field)
	if !ok || !fv.CanSet() {
		return "skip"
	}
	fv.SetInt(st.val)
	s.origin += "|set=" + st.field.name + "=" + strconv.FormatInt(st.val, 10)
	return "set:" + st.field.name + "=" + strconv.FormatInt(st.val, 10)
}

// takeInner returns a slot that holds only the embedded lower-level object.
func (s *slotObj) takeInner(which string) *slotObj {
	cur := s.current()
	if isNilObj(cur) {
		return nil
	}
	var in any
	var ok bool
	if which == "Temporal" {
		in, ok = temporalMetricsOf(cur)
	} else {
		in, ok = baseMetricsOf(cur)
	}
	if !ok || isNilObj(in) || kindOf(in) == s.kind {
		return nil
	}
	// a copy of the parent's history, so that the twin can be rebuilt without
	// keeping the aged owner alive
	p := *s
	p.res, p.recv = nil, nil
	return &slotObj{kind: kindOf(in), res: in, recv: in, origin: s.origin + "|inner:" + which, vec: s.vec, inner: which, parent: &p}
}

// rebuild replays the slot's state history on fresh objects, without any query.
func (s *slotObj) rebuild() *slotObj {
	if s.inner != "" {
		pt := s.parent.rebuild()
		t := pt.takeInner(s.inner)
		if t == nil {
			return &slotObj{kind: s.kind}
		}
		for _, st := range s.steps {
			func() {
				defer func() { _ = recover() }()
				t.applyStep(st)
			}()
		}
		return t
	}
	t := doDecode(s.kind, s.nilrecv, s.vec)
	for _, st := range s.steps {
		func() {
			defer func() { _ = recover() }() // a step that panicked on the aged object panics here too
			t.applyStep(st)
		}()
	}
	return t
}

type slotRep struct {
	rep    any
	origin string
	level  int
}

type world struct {
	objs []*slotObj
	reps []*slotRep
}

type deferredExport struct {
	rd  io.Reader
	err error
	key string
}

// simEpoch: where every task's simulated clock starts (2021-01-01T00:00:00Z).
const simEpoch = int64(1609459200) * 1_000_000_000

type taskCtx struct {
	clock    int64 // this task's simulated clock
	deferred map[int]*deferredExport
	w        *world
	objs     map[int]*slotObj
	reps     map[int]*slotRep
	fst      faultStats
	stats    *RunStats // only touched when single-task or after join
	nOK      int
	nFail    int
	nExp     int
	nExpE    int
}

// tick advances this task's clock by the operation's tick and makes it the
// simulated time.  Every task has its own timeline (a pure function of its own
// operation list), so that a legitimately time-stamped result is the same in the
// concurrent and in the sequential phase.
func (c *taskCtx) tick(op *Op) {
	c.clock += op.Tick
	simrt.SetNow(c.clock)
}

func newTaskCtx(w *world) *taskCtx {
	return &taskCtx{clock: simEpoch, w: w, objs: map[int]*slotObj{}, reps: map[int]*slotRep{}}
}

func (c *taskCtx) slot(ref *Ref) *slotObj {
	if ref == nil {
		return nil
	}
	if ref.Shared {
		if c.w == nil || ref.I < 0 || ref.I >= len(c.w.objs) {
			return nil
		}
		return c.w.objs[ref.I]
	}
	return c.objs[ref.I]
}

func (c *taskCtx) repSlot(ref *Ref) *slotRep {
	if ref == nil {
		return nil
	}
	if ref.Shared {
		if c.w == nil || ref.I < 0 || ref.I >= len(c.w.reps) {
			return nil
		}
		return c.w.reps[ref.I]
	}
	return c.reps[ref.I]
}

// operand returns the object an op works on and a description of where it came from.
func (c *taskCtx) operand(op *Op) (any, string, bool) {
	s := c.slot(op.Obj)
	if s == nil {
		return nil, "", false
	}
	if op.LB {
		if s.err == nil || isNilObj(s.recv) {
			return nil, "", false
		}
		return s.recv, s.origin + "|left-behind", true
	}
	return s.res, s.origin + "|result", true
}

// guard runs f and converts a panic into a canonical "PANIC:" result naming the
// top library frame.
func guard(f func() string) (out string) {
	defer func() {
		if r := recover(); r != nil {
			pcs := make([]uintptr, 48)
			n := runtime.Callers(2, pcs)
			frames := runtime.CallersFrames(pcs[:n])
			top := "?"
			for {
				fr, more := frames.Next()
				if strings.Contains(fr.Function, "go-cvss") && !strings.Contains(fr.Function, "simrt") {
					top = fr.Function
					break
				}
				if !more {
					break
				}
			}
			out = fmt.Sprintf("PANIC:%v @ %s", r, top)
		}
	}()
	return f()
}

func isPanic(s string) bool { return strings.HasPrefix(s, "PANIC:") }

func isDeadlock(s string) bool { return strings.HasPrefix(s, "PANIC:SIM-DEADLOCK") }

func panicFrame(s string) string {
	if i := strings.LastIndex(s, " @ "); i >= 0 {
		return s[i+3:]
	}
	return "?"
}

func doDecode(kind int, nilrecv bool, vec string) *slotObj {
	s := &slotObj{kind: kind, vec: vec, nilrecv: nilrecv}
	s.origin = fmt.Sprintf("%s|nil=%v|%s", kindNames[kind], nilrecv, strconv.Quote(vec))
	if nilrecv {
		s.recv = nilObj(kind)
	} else {
		s.recv = newObj(kind)
	}
	s.res, s.err = decodeWith(s.recv, vec)
	return s
}

func renderDecode(s *slotObj) string {
	var sb strings.Builder
	sb.WriteString("dec:")
	sb.WriteString(errClass(s.err))
	if isNilObj(s.res) {
		sb.WriteString(" obj=<nil>")
	} else {
		sb.WriteString(" obj=")
		sb.WriteString(snapshot(s.res))
		sb.WriteString(" ")
		sb.WriteString(observeAll(s.res))
	}
	return sb.String()
}

// renderExport reads what an export returned.
func renderExport(rd io.Reader, err error) string {
	var sb strings.Builder
	if rd == nil || isNilReader(rd) {
		sb.WriteString("out=<nil>")
	} else {
		b, rerr := io.ReadAll(rd)
		var one [8]byte
		if n, _ := rd.Read(one[:]); n > 0 { // one more Read after the end (legal)
			b = append(b, one[:n]...)
		}
		sb.WriteString("out=")
		sb.WriteString(strconv.Quote(string(b)))
		if rerr != nil {
			sb.WriteString(" readerr=" + rerr.Error())
		}
	}
	sb.WriteString(" err=")
	sb.WriteString(errClass(err))
	return sb.String()
}

func isNilReader(rd io.Reader) bool {
	return isNilObj(rd)
}

// deepCopyPtr returns a copy of a pointer-to-struct value in which every nested
// pointer-to-struct (the embedded lower-level reports) is a fresh allocation too.
func deepCopyPtr(v reflect.Value) reflect.Value {
	if v.Kind() != reflect.Ptr || v.IsNil() || v.Elem().Kind() != reflect.Struct {
		return v
	}
	n := reflect.New(v.Elem().Type())
	n.Elem().Set(v.Elem())
	for i := 0; i < n.Elem().NumField(); i++ {
		f := n.Elem().Field(i)
		if f.Kind() == reflect.Ptr && f.CanSet() && !f.IsNil() && f.Elem().Kind() == reflect.Struct {
			f.Set(deepCopyPtr(f))
		}
	}
	return n
}

// addrDependent reports whether what text/template renders for this template
// depends on WHERE the report lives in memory (a template that prints the report
// value itself, e.g. `{{printf "%d" $}}`, prints the address of the embedded
// lower-level report).  Such output legitimately differs between two equal
// reports, so it cannot be compared across objects, phases or processes.  Decided
// with text/template itself over the report and a deep copy of it.
func addrDependent(rep any, text string) bool {
	t, err := template.New("verif-addr-probe").Parse(text)
	if err != nil {
		return false
	}
	var a, b bytes.Buffer
	if err := t.Execute(&a, rep); err != nil {
		return false
	}
	cp := deepCopyPtr(reflect.ValueOf(rep))
	if !cp.IsValid() || !cp.CanInterface() {
		return false
	}
	if err := t.Execute(&b, cp.Interface()); err != nil {
		return false
	}
	return a.String() != b.String()
}

func (c *taskCtx) doExport(rep any, op *Op) (io.Reader, error) {
	ex, ok := rep.(exporter)
	if !ok {
		panic("not an exporter")
	}
	if op.Via == "rd" {
		f := Fault{ErrAt: -1}
		if op.Fault != nil {
			f = *op.Fault
		}
		return ex.ExportWith(newSimReader(op.Tmpl, f, &c.fst))
	}
	return ex.ExportWithString(op.Tmpl)
}

// execOp executes the generic operations (dec, obs, rep, exp, lkp) and returns
// the canonical result.  "skip" means an operand was not available.
func (c *taskCtx) execOp(op *Op) string {
	c.tick(op)
	return guard(func() string {
		switch op.K {
		case "dec":
			s := doDecode(op.Kind, op.NilRecv, op.Vec)
			s.hasTemp, s.hasEnv = op.HasTemp, op.HasEnv
			c.objs[op.Dst] = s
			if s.err == nil {
				c.nOK++
			} else {
				c.nFail++
			}
			return renderDecode(s)
		case "dsc":
			// decode and score, rendered tersely (volume runs)
			s := doDecode(op.Kind, op.NilRecv, op.Vec)
			c.objs[op.Dst] = s
			if s.err != nil || isNilObj(s.res) {
				c.nFail++
				return "dsc:" + errSentinels(s.err)
			}
			c.nOK++
			return "dsc:" + fbits(asMetrics(s.res).Score())
		case "rsc":
			// score again an object decoded by "dsc"; same rendering, same key
			sl := c.slot(op.Obj)
			if sl == nil {
				return "skip"
			}
			if sl.err != nil || isNilObj(sl.res) {
				return "dsc:" + errSentinels(sl.err)
			}
			return "dsc:" + fbits(asMetrics(sl.res).Score())
		case "obs":
			p, _, ok := c.operand(op)
			if !ok {
				return "skip"
			}
			if op.Obs == "all" || op.Obs == "" {
				return observeAll(p)
			}
			return observe(p, op.Obs)
		case "snap":
			p, _, ok := c.operand(op)
			if !ok {
				return "skip"
			}
			return snapshot(p)
		case "rep":
			p, origin, ok := c.operand(op)
			if !ok {
				return "skip"
			}
			rep, ok := newReport(p, op.Lang)
			if !ok {
				return "skip"
			}
			c.reps[op.Dst] = &slotRep{rep: rep, origin: origin + "|lang=" + langs[op.Lang%len(langs)].name, level: reportLevel(rep)}
			return "rep:" + snapshot(rep)
		case "exp":
			r := c.repSlot(op.Rep)
			if r == nil {
				return "skip"
			}
			c.nExp++
			var key string
			if op.Defer {
				key, _ = c.opKey(op)
			}
			rd, err := c.doExport(r.rep, op)
			if err != nil {
				c.nExpE++
			}
			if err == nil && addrDependent(r.rep, op.Tmpl) {
				// prints an address: not comparable across objects
				if rd != nil && !isNilReader(rd) {
					_, _ = io.ReadAll(rd)
				}
				return "out=<depends on the address of the report> err=nil"
			}
			if op.Defer {
				// the reader is read by a later "read" operation, after other work
				if c.deferred == nil {
					c.deferred = map[int]*deferredExport{}
				}
				c.deferred[op.Dst] = &deferredExport{rd: rd, err: err, key: key}
				return "skip"
			}
			return renderExport(rd, err)
		case "read":
			de := c.deferred[op.IArg]
			if de == nil {
				return "skip"
			}
			delete(c.deferred, op.IArg)
			return renderExport(de.rd, de.err)
		case "lkp":
			return doLookup(op.Fn, op.SArg, op.IArg, op.Lang)
		case "inner":
			// keep only the embedded lower-level object of slot Obj (in slot Dst) and
			// forget the owner
			sl := c.slot(op.Obj)
			if sl == nil || (op.Obj != nil && op.Obj.Shared) || sl.inner != "" {
				return "skip"
			}
			in := sl.takeInner(op.Field)
			if in == nil {
				return "skip"
			}
			c.objs[op.Dst] = in
			delete(c.objs, op.Obj.I) // the owner is unreachable from now on
			return "inner:" + op.Field + " " + snapshot(in.res)
		case "gc":
			// a garbage collection at this instant, finalizers included: two cycles
			// (sync.Pool victim caches), then a moment for the finalizer goroutine
			runtime.GC()
			runtime.GC()
			for i := 0; i < 4; i++ {
				runtime.Gosched()
			}
			time.Sleep(200 * time.Microsecond)
			return "gc"
		case "redec":
			sl := c.slot(op.Obj)
			if sl == nil || (op.Obj != nil && op.Obj.Shared) {
				return "skip"
			}
			st := stateStep{redec: true, vec: op.Vec}
			// recorded before it is applied: a decode that panics half-way has
			// still changed the receiver, and the rebuilt twin must go through the
			// same aborted step (the panic itself is C12's subject, not C15's)
			sl.steps = append(sl.steps, st)
			r := sl.applyStep(st)
			if r == "skip" {
				sl.steps = sl.steps[:len(sl.steps)-1]
			}
			return r
		case "set":
			sl := c.slot(op.Obj)
			if sl == nil || (op.Obj != nil && op.Obj.Shared) {
				return "skip"
			}
			cur := sl.current()
			if isNilObj(cur) {
				return "skip"
			}
			fs := fieldsOf(cur)
			if len(fs) == 0 {
				return "skip"
			}
			f := fs[op.IArg%len(fs)]
			var val int64
			have := false
			if d := c.slot(op.Donor); d != nil && d.kind == sl.kind && !isNilObj(d.current()) {
				if dv, ok := fieldValue(d.current(), f); ok {
					val, have = dv.Int(), true
				}
			}
			if !have {
				inv, ok := invalidValueOf(f.typ)
				if !ok {
					return "skip"
				}
				val = inv.Int()
			}
			st := stateStep{field: f, val: val}
			sl.steps = append(sl.steps, st)
			r := sl.applyStep(st)
			if r == "skip" {
				sl.steps = sl.steps[:len(sl.steps)-1]
			}
			return r
		}
		return "skip"
	})
}

// opKey identifies "the same operation on the same thing" for the history
// oracles: two ops with equal keys must give equal results wherever they occur.
func (c *taskCtx) opKey(op *Op) (string, bool) {
	switch op.K {
	case "dec":
		return fmt.Sprintf("dec|%d|%v|%s", op.Kind, op.NilRecv, strconv.Quote(op.Vec)), true
	case "dsc":
		return fmt.Sprintf("dsc|%d|%v|%s", op.Kind, op.NilRecv, op.Vec), true
	case "rsc":
		if sl := c.slot(op.Obj); sl != nil {
			return fmt.Sprintf("dsc|%d|%v|%s", sl.kind, sl.nilrecv, sl.vec), true
		}
		return "", false
	case "obs", "snap":
		_, origin, ok := c.operand(op)
		if !ok {
			return "", false
		}
		return op.K + "|" + op.Obs + "|" + origin, true
	case "rep":
		_, origin, ok := c.operand(op)
		if !ok {
			return "", false
		}
		return "rep|" + strconv.Itoa(op.Lang) + "|" + origin, true
	case "exp":
		r := c.repSlot(op.Rep)
		if r == nil {
			return "", false
		}
		// the same operation = same template, same path, same reader script
		f := "|" + op.Via
		if op.Via == "rd" && op.Fault != nil {
			f += fmt.Sprintf("|%+v", *op.Fault)
		}
		return "exp|" + strconv.Quote(op.Tmpl) + f + "|" + r.origin, true
	case "lkp":
		return fmt.Sprintf("lkp|%d|%s|%d|%d", op.Fn, strconv.Quote(op.SArg), op.IArg, op.Lang), true
	case "read":
		// same key as the export it belongs to: reading later must not matter
		if de := c.deferred[op.IArg]; de != nil && de.key != "" {
			return de.key, true
		}
		return "", false
	case "redec":
		sl := c.slot(op.Obj)
		if sl == nil || isNilObj(sl.current()) {
			return "", false
		}
		return "redec|" + strconv.Quote(op.Vec) + "|" + sl.origin, true
	}
	return "", false
}

// maskAddrs replaces heap addresses (0xc000...) by a constant.  Hand-written: a
// regexp would go through a sync.Pool and tasks call this after every operation.
func maskAddrs(s string) string {
	i := strings.Index(s, "0xc")
	if i < 0 {
		return s
	}
	var sb strings.Builder
	for i >= 0 {
		j := i + 3
		for j < len(s) && (s[j] >= '0' && s[j] <= '9' || s[j] >= 'a' && s[j] <= 'f') {
			j++
		}
		if j-i >= 9 {
			sb.WriteString(s[:i])
			sb.WriteString("0xADDR")
		} else {
			sb.WriteString(s[:j])
		}
		s = s[j:]
		i = strings.Index(s, "0xc")
	}
	sb.WriteString(s)
	return sb.String()
}

func clip(s string, n int) string {
	if len(s) <= n {
		return s
	}
	return s[:n] + "…"
}
