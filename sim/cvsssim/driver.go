package main

// driver.go: spawns worker processes, aggregates their results, confirms,
// minimises and replays violations, writes the evidence file.

import (
	"bufio"
	"bytes"
	"encoding/json"
	"fmt"
	"os"
	"os/exec"
	"path/filepath"
	"regexp"
	"runtime"
	"sort"
	"strings"
	"sync"
	"sync/atomic"
	"time"
)

type plan struct {
	runs      uint64 // quick: fixed number of runs
	batch     uint64
	race      bool
	secs      int // thorough: time box for the main phase
	extraSecs int // thorough C16: non-race phase
	detSample int
	watchdog  string
}

func planFor(prop, tier string) plan {
	thorough := tier == "thorough"
	secs := int(envUint("VERIF_THOROUGH_SECS", 480))
	scale := envUint("VERIF_QUICK_SCALE", 100) // percent
	q := func(n uint64) uint64 { return n*scale/100 + 1 }
	switch prop {
	case "C12":
		if thorough {
			return plan{batch: 400, secs: secs, detSample: 48, watchdog: "180s"}
		}
		return plan{runs: q(24000), batch: 250, detSample: 6, watchdog: "25s"}
	case "C15":
		if thorough {
			return plan{batch: 1, secs: secs, detSample: 48, watchdog: "180s"}
		}
		return plan{runs: q(20000), batch: 1, detSample: 32, watchdog: "150s"}
	case "C16":
		if thorough {
			return plan{batch: 8, race: true, secs: secs, extraSecs: secs / 2, detSample: 48, watchdog: "180s"}
		}
		return plan{runs: q(3200), batch: 8, race: true, detSample: 6, watchdog: "60s"}
	case "C19":
		if thorough {
			return plan{batch: 100, secs: secs, detSample: 48, watchdog: "180s"}
		}
		return plan{runs: q(16000), batch: 100, detSample: 6, watchdog: "60s"}
	}
	return plan{}
}

type workerDone struct {
	Done       bool     `json:"done"`
	Hits       []uint32 `json:"hits"`
	IOYields   uint64   `json:"io_yields"`
	ClockReads uint64   `json:"clock_reads"`
}

type found struct {
	other    int64 // cross-process findings: the run that disagrees; -1 otherwise
	runIndex uint64
	sig      string
	detail   string
	batch    [2]uint64
	race     bool // found by the race build
	alt      bool // ... the one with the stock sync.Pool
}

type agg struct {
	mu          sync.Mutex
	runs        uint64
	ops         uint64
	yields      uint64
	seqYields   uint64
	switches    uint64
	preempt     uint64
	mapRanges   uint64
	decOK       uint64
	decFail     uint64
	exports     uint64
	exportErr   uint64
	raceReports uint64
	fault       faultStats
	counters    map[string]int
	policies    map[int]int
	tasksHist   map[int]int
	fps         map[uint64]uint64 // run fingerprint -> run index
	caseKeys    map[uint64]struct{}
	switchPairs map[uint64]struct{}
	hits        map[uint32]struct{}
	ioYields    uint64
	clockReads  uint64
	slowestMs   int64
	slowestRun  uint64
	simNanos    float64
	cross       map[uint64]uint64
	crossRun    map[uint64]uint64
	crossSeen   uint64
	crossShared uint64
	found       []found
	trouble     []string
	samples     []string
	fpByRun     map[uint64]uint64
	maxIndex    uint64
	withPreempt uint64
}

func newAgg() *agg {
	return &agg{counters: map[string]int{}, policies: map[int]int{}, tasksHist: map[int]int{}, fps: map[uint64]uint64{},
		caseKeys: map[uint64]struct{}{}, switchPairs: map[uint64]struct{}{}, hits: map[uint32]struct{}{},
		cross: map[uint64]uint64{}, crossRun: map[uint64]uint64{}, fpByRun: map[uint64]uint64{}}
}

func (a *agg) add(r *RunResult, batch [2]uint64, prop string, raceBuild, alt bool) {
	a.mu.Lock()
	defer a.mu.Unlock()
	a.runs++
	if r.RunIndex > a.maxIndex {
		a.maxIndex = r.RunIndex
	}
	s := &r.Stats
	a.ops += uint64(s.Ops)
	if s.WallMs > a.slowestMs {
		a.slowestMs, a.slowestRun = s.WallMs, r.RunIndex
	}
	a.simNanos += float64(s.SimNanos)
	a.yields += s.Yields
	a.seqYields += s.SeqYields
	a.switches += s.Switches
	a.preempt += s.Preemptions
	if s.Preemptions > 0 {
		a.withPreempt++
	}
	a.mapRanges += s.MapRanges
	a.decOK += uint64(s.DecodeOK)
	a.decFail += uint64(s.DecodeFail)
	a.exports += uint64(s.Exports)
	a.exportErr += uint64(s.ExportErr)
	a.raceReports += uint64(s.RaceReports)
	a.fault.add(&s.Fault)
	for k, v := range s.Counters {
		a.counters[k] += v
	}
	a.policies[s.Policy]++
	a.tasksHist[s.Tasks]++
	if _, ok := a.fps[r.FP]; !ok {
		a.fps[r.FP] = r.RunIndex
	}
	if raceBuild || !planFor(prop, "quick").race {
		a.fpByRun[r.RunIndex] = r.FP
	}
	for _, k := range s.CaseKeys {
		a.caseKeys[k] = struct{}{}
	}
	for _, k := range s.SwitchPairs {
		a.switchPairs[k] = struct{}{}
	}
	for _, kv := range s.CrossKeys {
		a.crossSeen++
		if prev, ok := a.cross[kv[0]]; ok {
			a.crossShared++
			if prev != kv[1] {
				a.found = append(a.found, found{other: int64(a.crossRun[kv[0]]), runIndex: r.RunIndex, sig: "history:cross-process",
					detail: fmt.Sprintf("the same operation on the same input gave different results in two processes with different histories: run %d and run %d (key hash %x)", a.crossRun[kv[0]], r.RunIndex, kv[0]), batch: batch})
			}
		} else {
			a.cross[kv[0]] = kv[1]
			a.crossRun[kv[0]] = r.RunIndex
		}
	}
	for _, v := range r.Violations {
		a.found = append(a.found, found{other: -1, runIndex: r.RunIndex, sig: v.Sig, detail: v.Detail, batch: batch, race: raceBuild, alt: alt})
	}
	if r.Trouble != "" {
		a.trouble = append(a.trouble, fmt.Sprintf("run %d: %s", r.RunIndex, r.Trouble))
	}
	if len(a.samples) < 5 && s.Sample != "" && (a.runs%97 == 1 || len(a.samples) == 0) {
		a.samples = append(a.samples, fmt.Sprintf("run %d (seed %d): %s", r.RunIndex, r.Seed, s.Sample))
	}
}

type driverEnv struct {
	batch      uint64
	watchdogs  int32  // runs killed by the wall-clock watchdog so far
	raceAlt    string // race build with the stock sync.Pool ("" = none)
	useAlt     bool   // single executions use the alternative race build
	prop, tier string
	base       uint64
	raceBin    string
	noraceBin  string
	sites      string
	verif      string
	tmp        string
	workers    int
}

func (e *driverEnv) bin(race bool) string {
	if race {
		if e.useAlt && e.raceAlt != "" {
			return e.raceAlt
		}
		return e.raceBin
	}
	return e.noraceBin
}

// runWorker executes one batch in a fresh process.  It returns the index of the
// run that was in progress if the process died, and the captured stderr.
func (e *driverEnv) runWorker(a *agg, race bool, from, n uint64, wdog string) (crashedAt int64, stderr string, err error) {
	logBase := filepath.Join(e.tmp, fmt.Sprintf("race-%d-%d", from, time.Now().UnixNano()))
	binary := e.bin(race)
	alt := false
	if race && e.raceAlt != "" && e.batch > 0 && (from/e.batch)%2 == 1 {
		binary, alt = e.raceAlt, true // odd batches: stock sync.Pool
	}
	cmd := exec.Command(binary, "worker", "-prop", e.prop, "-tier", e.tier, "-base", fmt.Sprint(e.base),
		"-from", fmt.Sprint(from), "-n", fmt.Sprint(n), "-watchdog", wdog)
	cmd.Env = append(os.Environ(), "GORACE=halt_on_error=0 exitcode=0 log_path="+logBase)
	var errb bytes.Buffer
	cmd.Stderr = &errb
	out, perr := cmd.StdoutPipe()
	if perr != nil {
		return -1, "", perr
	}
	if perr := cmd.Start(); perr != nil {
		return -1, "", perr
	}
	sc := bufio.NewScanner(out)
	sc.Buffer(make([]byte, 1<<20), 1<<28)
	cur := int64(-1)
	done := false
	for sc.Scan() {
		line := sc.Bytes()
		if bytes.HasPrefix(line, []byte(`{"begin":`)) {
			var b struct{ Begin int64 }
			if json.Unmarshal(line, &b) == nil {
				cur = b.Begin
			}
			continue
		}
		if bytes.HasPrefix(line, []byte(`{"watchdog":`)) {
			continue
		}
		if bytes.HasPrefix(line, []byte(`{"done":`)) {
			var d workerDone
			if json.Unmarshal(line, &d) == nil && d.Done {
				done = true
				a.mu.Lock()
				for _, h := range d.Hits {
					a.hits[h] = struct{}{}
				}
				a.ioYields += d.IOYields
				a.clockReads += d.ClockReads
				a.mu.Unlock()
			}
			continue
		}
		var r RunResult
		if jerr := json.Unmarshal(line, &r); jerr != nil {
			continue
		}
		a.add(&r, [2]uint64{from, n}, e.prop, race, alt)
		cur = -1
	}
	werr := cmd.Wait()
	// remove race logs of clean batches
	if m, _ := filepath.Glob(logBase + ".*"); len(m) > 0 {
		for _, f := range m {
			os.Remove(f)
		}
	}
	if done && werr == nil {
		return -1, errb.String(), nil
	}
	return cur, errb.String(), fmt.Errorf("worker exited abnormally: %v", werr)
}

var raceFuncRe = regexp.MustCompile(`^\s+(\S+)\(\)\s*$`)

// raceSignature extracts "race:<f1>|<f2>" (top library frames of the two
// conflicting accesses, no addresses or line numbers) from race detector output.
func raceSignatures(log string) []string {
	var sigs []string
	blocks := strings.Split(log, "WARNING: DATA RACE")
	for _, b := range blocks[1:] {
		lines := strings.Split(b, "\n")
		var tops []string
		inStack := false
		cur := ""
		fallback := ""
		flush := func() {
			if inStack {
				if cur == "" {
					cur = fallback
				}
				tops = append(tops, cur)
			}
		}
		for _, l := range lines {
			t := strings.TrimSpace(l)
			if strings.HasPrefix(t, "Write at") || strings.HasPrefix(t, "Read at") || strings.HasPrefix(t, "Previous write at") || strings.HasPrefix(t, "Previous read at") ||
				strings.HasPrefix(t, "Atomic write at") || strings.HasPrefix(t, "Previous atomic") || strings.HasPrefix(t, "Atomic read at") {
				flush()
				inStack, cur, fallback = true, "", ""
				continue
			}
			if strings.HasPrefix(t, "Goroutine ") || strings.HasPrefix(t, "==========") {
				flush()
				inStack = false
				if len(tops) >= 2 {
					break
				}
				continue
			}
			if !inStack {
				continue
			}
			if m := raceFuncRe.FindStringSubmatch(l); m != nil {
				fn := m[1]
				if fallback == "" {
					fallback = fn
				}
				if cur == "" && strings.Contains(fn, "go-cvss") {
					cur = fn
				}
			}
		}
		if len(tops) > 2 {
			tops = tops[:2]
		}
		sort.Strings(tops)
		sigs = append(sigs, "race:"+strings.Join(tops, "|"))
	}
	return sigs
}

// execSingle runs `one` or `replay` in a fresh process and returns the result
// and the race log.
func (e *driverEnv) execSingle(race bool, gomaxprocs int, args ...string) (*RunResult, string, string, error) {
	logBase := filepath.Join(e.tmp, fmt.Sprintf("single-%d", time.Now().UnixNano()))
	cmd := exec.Command(e.bin(race), args...)
	cmd.Env = append(os.Environ(), "GORACE=halt_on_error=0 exitcode=0 log_path="+logBase)
	if gomaxprocs > 0 {
		cmd.Env = append(cmd.Env, fmt.Sprintf("GOMAXPROCS=%d", gomaxprocs))
	}
	var errb, outb bytes.Buffer
	cmd.Stderr = &errb
	cmd.Stdout = &outb
	werr := cmd.Run()
	var rlog strings.Builder
	if m, _ := filepath.Glob(logBase + ".*"); len(m) > 0 {
		for _, f := range m {
			b, _ := os.ReadFile(f)
			rlog.Write(b)
			os.Remove(f)
		}
	}
	var res *RunResult
	for _, line := range bytes.Split(outb.Bytes(), []byte("\n")) {
		if bytes.HasPrefix(line, []byte(`{"prop":`)) {
			var r RunResult
			if json.Unmarshal(line, &r) == nil {
				res = &r
			}
		}
	}
	if res == nil {
		return nil, rlog.String(), errb.String(), fmt.Errorf("no result (exit: %v)", werr)
	}
	return res, rlog.String(), errb.String(), nil
}

// sigsOf: the violation signatures of a single execution, with race reports
// expanded to function pairs, or a fatal: signature when the process died.
func sigsOf(res *RunResult, rlog, stderr string, err error) []string {
	if err != nil {
		return []string{fatalSignature(stderr)}
	}
	var out []string
	for _, v := range res.Violations {
		if v.Sig == "race" {
			rs := raceSignatures(rlog)
			if len(rs) == 0 {
				rs = []string{"race:unattributed"}
			}
			out = append(out, rs...)
			continue
		}
		out = append(out, v.Sig)
	}
	return out
}

func fatalSignature(stderr string) string {
	for _, l := range strings.Split(stderr, "\n") {
		t := strings.TrimSpace(l)
		if strings.HasPrefix(t, "fatal error:") || strings.HasPrefix(t, "panic:") || strings.HasPrefix(t, "SIMRT-FATAL") || strings.HasPrefix(t, "runtime:") {
			if len(t) > 120 {
				t = t[:120]
			}
			return "fatal:" + t
		}
	}
	return "fatal:process died"
}

func contains(xs []string, s string) bool {
	for _, x := range xs {
		if x == s {
			return true
		}
	}
	return false
}

type knownFinding struct {
	Property string `json:"property"`
	Sig      string `json:"sig"`
	Match    string `json:"match"`
	What     string `json:"what"`
}

func loadKnown(path, prop string) []knownFinding {
	b, err := os.ReadFile(path)
	if err != nil {
		return nil
	}
	var out []knownFinding
	for _, l := range strings.Split(string(b), "\n") {
		l = strings.TrimSpace(l)
		if l == "" || !strings.HasPrefix(l, "{") {
			continue // "fixed: ..." lines and comments suppress nothing
		}
		var k knownFinding
		if json.Unmarshal([]byte(l), &k) == nil && k.Property == prop && k.Sig != "" {
			out = append(out, k)
		}
	}
	return out
}

func drive(prop, tier string) int {
	start := time.Now()
	e := &driverEnv{prop: prop, tier: tier}
	e.base = envUint("VERIF_SEED", 20260101)
	e.raceBin = os.Getenv("CVSSSIM_RACE_BIN")
	e.raceAlt = os.Getenv("CVSSSIM_RACE_ALT_BIN")
	e.noraceBin = os.Getenv("CVSSSIM_NORACE_BIN")
	e.sites = os.Getenv("CVSSSIM_SITES")
	e.verif = os.Getenv("CVSSSIM_VERIF")
	if e.verif == "" {
		e.verif = "/verif"
	}
	e.tmp = os.Getenv("CVSSSIM_TMP")
	if e.tmp == "" {
		e.tmp = os.TempDir()
	}
	e.workers = int(envUint("VERIF_WORKERS", uint64(runtime.NumCPU())))
	if e.workers < 1 {
		e.workers = 1
	}
	pl := planFor(prop, tier)
	if pl.batch == 0 {
		fmt.Fprintln(os.Stderr, "drive: unknown property", prop)
		return 2
	}
	e.batch = pl.batch
	known := loadKnown(filepath.Join(e.verif, "known_findings.jsonl"), prop)
	a := newAgg()
	var infra []string
	var infraMu sync.Mutex

	// ---- main phase -----------------------------------------------------
	runPhase := func(race bool, runs uint64, secs int, firstIndex uint64) uint64 {
		type job struct{ from, n uint64 }
		jobs := make(chan job)
		var wg sync.WaitGroup
		deadline := time.Now().Add(time.Duration(secs) * time.Second)
		for w := 0; w < e.workers; w++ {
			wg.Add(1)
			go func() {
				defer wg.Done()
				for j := range jobs {
					from, n := j.from, j.n
					for n > 0 && atomic.LoadInt32(&e.watchdogs) < 3 {
						crashed, stderr, err := e.runWorker(a, race, from, n, pl.watchdog)
						if err == nil {
							break
						}
						if crashed < 0 {
							infraMu.Lock()
							infra = append(infra, fmt.Sprintf("batch %d+%d: %v: %s", from, n, err, clip(stderr, 400)))
							infraMu.Unlock()
							break
						}
						if strings.Contains(stderr, "WATCHDOG") {
							atomic.AddInt32(&e.watchdogs, 1)
							infraMu.Lock()
							infra = append(infra, fmt.Sprintf("run %d: watchdog: %s", crashed, clip(stderr, 300)))
							infraMu.Unlock()
						} else {
							a.mu.Lock()
							a.found = append(a.found, found{other: -1, runIndex: uint64(crashed), sig: fatalSignature(stderr), detail: clip(stderr, 1500), batch: [2]uint64{j.from, j.n}, race: race})
							a.mu.Unlock()
						}
						// continue after the crashed run
						done := uint64(crashed) + 1 - from
						from += done
						n -= done
					}
				}
			}()
		}
		next := firstIndex
		if runs > 0 {
			end := firstIndex + runs
			for next < end && atomic.LoadInt32(&e.watchdogs) < 3 {
				n := pl.batch
				if next+n > end {
					n = end - next
				}
				jobs <- job{next, n}
				next += n
			}
		} else {
			for time.Now().Before(deadline) && atomic.LoadInt32(&e.watchdogs) < 3 {
				jobs <- job{next, pl.batch}
				next += pl.batch
			}
		}
		close(jobs)
		wg.Wait()
		return next
	}
	phaseStart := time.Now()
	last := runPhase(pl.race, pl.runs, pl.secs, 0)
	mainWall := time.Since(phaseStart).Seconds()
	mainRuns := a.runs
	var extraRuns uint64
	if pl.extraSecs > 0 {
		// C16 thorough: the non-race build executes further runs much faster; only
		// oracle 2 (equals sequential) and 3 apply there.
		before := a.runs
		runPhase(false, 0, pl.extraSecs, last)
		extraRuns = a.runs - before
	}

	// ---- determinism spot check -----------------------------------------
	detChecked, detMismatch := 0, 0
	if pl.detSample > 0 && a.runs > 0 {
		step := a.maxIndex/uint64(pl.detSample) + 1
		var idxs []uint64
		for i := uint64(0); i <= a.maxIndex && len(idxs) < pl.detSample; i += step {
			if _, ok := a.fpByRun[i]; ok {
				idxs = append(idxs, i)
			}
		}
		var mu sync.Mutex
		var wg sync.WaitGroup
		sem := make(chan struct{}, e.workers)
		for n, i := range idxs {
			wg.Add(1)
			sem <- struct{}{}
			go func(n int, i uint64) {
				defer wg.Done()
				defer func() { <-sem }()
				gmp := []int{1, 4, 16}[n%3]
				res, _, _, err := e.execSingle(pl.race, gmp, "one", "-prop", prop, "-tier", tier, "-base", fmt.Sprint(e.base), "-index", fmt.Sprint(i))
				mu.Lock()
				defer mu.Unlock()
				detChecked++
				if err != nil || res.FP != a.fpByRun[i] {
					detMismatch++
					if prop == "C15" {
						a.found = append(a.found, found{other: -1, runIndex: i, sig: "nondeterministic", detail: fmt.Sprintf("run %d executed twice in fresh processes gave different event-log fingerprints", i)})
					}
				}
			}(n, i)
		}
		wg.Wait()
	}

	// ---- violations -----------------------------------------------------
	if len(a.found) > 0 {
		bySig := map[string]int{}
		runsBad := map[uint64]bool{}
		for _, f := range a.found {
			bySig[f.sig]++
			runsBad[f.runIndex] = true
		}
		var ks []string
		for k := range bySig {
			ks = append(ks, k)
		}
		sort.Strings(ks)
		fmt.Printf("violating runs: %d of %d\n", len(runsBad), a.runs)
		for _, k := range ks {
			fmt.Printf("  %6d x %s\n", bySig[k], k)
		}
	}
	if os.Getenv("VERIF_NO_CONFIRM") != "" {
		if len(a.found) > 0 {
			return 1
		}
		return 0
	}
	violations := 0
	knownHits := 0
	reported := map[string]bool{}
	sort.SliceStable(a.found, func(i, j int) bool { return a.found[i].runIndex < a.found[j].runIndex })
	var replayFiles []string
	for _, f := range a.found {
		fam := f.sig
		if reported[fam] {
			continue
		}
		if len(reported) >= 4 {
			break
		}
		reported[fam] = true
		path, finalSigs, detail := e.confirmAndMinimise(pl, f)
		isKnown := false
		for _, k := range known {
			for _, s := range finalSigs {
				if s == k.Sig && (k.Match == "" || strings.Contains(detail, k.Match)) {
					isKnown = true
					fmt.Printf("KNOWN-FINDING: property=%s %s\n", prop, k.What)
				}
			}
		}
		if isKnown {
			knownHits++
			continue
		}
		violations++
		for _, s := range finalSigs {
			reported[s] = true
		}
		fmt.Printf("VIOLATION property=%s replay=%s\n", prop, path)
		fmt.Printf("  signature: %s\n  run index %d (base seed %d)\n  %s\n", strings.Join(finalSigs, " ; "), f.runIndex, e.base, strings.ReplaceAll(clip(detail, 1200), "\n", "\n  "))
		replayFiles = append(replayFiles, path)
	}

	// ---- evidence -------------------------------------------------------
	wall := time.Since(start).Seconds()
	ev := e.evidence(pl, a, wall, mainWall, mainRuns, extraRuns, violations, knownHits, detChecked, detMismatch, infra, replayFiles)
	evDir := os.Getenv("VERIF_EVIDENCE_DIR")
	if evDir == "" {
		evDir = filepath.Join(e.verif, "evidence")
	}
	evPath := filepath.Join(evDir, prop+".json")
	_ = os.MkdirAll(filepath.Dir(evPath), 0o755)
	if err := writeJSON(evPath, ev); err != nil {
		fmt.Fprintln(os.Stderr, "drive: cannot write evidence:", err)
		return 2
	}
	fmt.Printf("%s %s: runs=%d ops=%d yields=%d switches=%d distinct-fingerprints=%d violations=%d known=%d wall=%.1fs evidence=%s\n",
		prop, tier, a.runs, a.ops, a.yields, a.switches, len(a.fps), violations, knownHits, wall, evPath)
	if violations > 0 {
		return 1
	}
	if len(infra) > 0 || a.runs == 0 {
		for _, s := range infra {
			fmt.Fprintln(os.Stderr, "HARNESS-TROUBLE:", s)
		}
		return 2
	}
	if len(a.trouble) > 0 {
		for i, s := range a.trouble {
			if i < 5 {
				fmt.Fprintln(os.Stderr, "HARNESS-TROUBLE:", s)
			}
		}
		return 2
	}
	if detMismatch > 0 && prop != "C15" {
		fmt.Fprintf(os.Stderr, "WARNING: %d of %d re-executed runs had a different fingerprint in a fresh process (process-history dependence is C15's subject; recorded in the evidence)\n", detMismatch, detChecked)
	}
	return 0
}

// confirmAndMinimise re-executes the failing run alone in a fresh process,
// minimises its description, replays the result three times and writes the
// replay file.
func (e *driverEnv) confirmAndMinimise(pl plan, f found) (path string, sigs []string, detail string) {
	race := pl.race
	e.useAlt = f.alt
	defer func() { e.useAlt = false }()
	replayDir := os.Getenv("VERIF_REPLAY_DIR")
	if replayDir == "" {
		replayDir = filepath.Join(e.verif, "replays")
	}
	_ = os.MkdirAll(replayDir, 0o755)
	path = filepath.Join(replayDir, fmt.Sprintf("%s-%d-%d.json", e.prop, e.base, f.runIndex))
	if f.sig == "history:cross-process" && f.other >= 0 {
		return e.confirmPair(pl, f, path)
	}
	descPath := filepath.Join(e.tmp, fmt.Sprintf("desc-%d.json", f.runIndex))
	res, rlog, stderr, err := e.execSingle(race, 0, "one", "-prop", e.prop, "-tier", e.tier, "-base", fmt.Sprint(e.base), "-index", fmt.Sprint(f.runIndex), "-desc", descPath)
	sigs = sigsOf(res, rlog, stderr, err)
	detail = f.detail
	if res != nil {
		for _, v := range res.Violations {
			if v.Detail != "" {
				detail = v.Detail
				break
			}
		}
	}
	if rlog != "" {
		detail += "\n" + clip(rlog, 1800)
	}
	d, derr := readDesc(descPath)
	if derr != nil {
		// the process died before writing the description: regenerate it
		d = generate(e.prop, e.tier, e.base, f.runIndex)
	}
	os.Remove(descPath)
	if len(sigs) == 0 {
		// Seen in a batch but not when run alone: package-level state left behind by
		// earlier runs of that worker process matters.  Replay the batch prefix, then
		// shorten it from the front as far as the violation persists.
		d = generate(e.prop, e.tier, e.base, f.runIndex)
		d.Expect = f.sig
		tryPrefix := func(from uint64) bool {
			c := d.clone()
			c.PrefixFrom = &from
			p := filepath.Join(e.tmp, fmt.Sprintf("prefix-%d.json", time.Now().UnixNano()))
			if writeJSON(p, c) != nil {
				return false
			}
			defer os.Remove(p)
			r, rl, se, er := e.execSingle(race, 0, "replay", "-file", p)
			got := sigsOf(r, rl, se, er)
			if f.sig == "race" {
				for _, g := range got {
					if strings.HasPrefix(g, "race") {
						return true
					}
				}
			}
			return contains(got, f.sig)
		}
		from := f.batch[0]
		if from <= f.runIndex && tryPrefix(from) {
			// shorten: the latest start that still shows it (doubling back from the target)
			best := from
			for back := uint64(1); f.runIndex >= back && f.runIndex-back > from; back *= 2 {
				if tryPrefix(f.runIndex - back) {
					best = f.runIndex - back
					break
				}
			}
			d.PrefixFrom = &best
			ok := 0
			for i := 0; i < 3; i++ {
				if tryPrefix(best) {
					ok++
				}
			}
			d.Reproduced = fmt.Sprintf("%d/3", ok)
			d.Note = fmt.Sprintf("needs the runs %d..%d of the same process first (package-level state); not reproducible as a single run", best, f.runIndex-1)
			_ = writeJSON(path, d)
			return path, []string{f.sig}, f.detail
		}
		d.Note = fmt.Sprintf("observed in worker batch from=%d n=%d; reproduces neither alone nor after the batch prefix. %s", f.batch[0], f.batch[1], clip(f.detail, 600))
		d.Reproduced = "0/3"
		_ = writeJSON(path, d)
		return path, []string{f.sig}, f.detail
	}
	target := sigs[0]
	if contains(sigs, f.sig) {
		target = f.sig
	}
	d.Expect = target
	if race {
		d.Build = "race"
		if f.alt {
			d.Build = "race-stockpool"
		}
	}
	d.OrigOps = d.nOps()
	d.OrigSw = len(d.Sched.Explicit)
	stillFails := func(c *RunDesc) bool {
		p := filepath.Join(e.tmp, fmt.Sprintf("cand-%d.json", time.Now().UnixNano()))
		if writeJSON(p, c) != nil {
			return false
		}
		defer os.Remove(p)
		r, rl, se, er := e.execSingle(race, 0, "replay", "-file", p)
		return contains(sigsOf(r, rl, se, er), target)
	}
	if stillFails(d) {
		d = minimise(d, stillFails, time.Now().Add(90*time.Second))
		d.Minimised = true
	} else {
		d.Note = "the explicit-schedule replay of this run did not reproduce the violation; description kept unminimised"
	}
	ok := 0
	tmpPath := path + ".tmp"
	_ = writeJSON(tmpPath, d)
	for i := 0; i < 3; i++ {
		r, rl, se, er := e.execSingle(race, []int{0, 1, 4}[i], "replay", "-file", tmpPath)
		if contains(sigsOf(r, rl, se, er), target) {
			ok++
		}
	}
	os.Remove(tmpPath)
	d.Reproduced = fmt.Sprintf("%d/3", ok)
	_ = writeJSON(path, d)
	return path, sigs, detail
}

// confirmPair handles a cross-process finding: two histories, each executed in
// its own process, whose common operations disagree.
func (e *driverEnv) confirmPair(pl plan, f found, path string) (string, []string, string) {
	const target = "history:cross-process"
	d := generate(e.prop, e.tier, e.base, f.runIndex)
	d.Pair = generate(e.prop, e.tier, e.base, uint64(f.other))
	d.Expect = target
	d.OrigOps = d.nOps() + d.Pair.nOps()
	detail := f.detail
	run := func(c *RunDesc) (*RunResult, bool) {
		p := filepath.Join(e.tmp, fmt.Sprintf("pair-%d.json", time.Now().UnixNano()))
		if writeJSON(p, c) != nil {
			return nil, false
		}
		defer os.Remove(p)
		r, rl, se, er := e.execSingle(false, 0, "replay", "-file", p)
		return r, contains(sigsOf(r, rl, se, er), target)
	}
	if _, ok := run(d); ok {
		deadline := time.Now().Add(120 * time.Second)
		// minimise history A with B fixed, then B with A fixed
		pair := d.Pair
		a := minimise(d, func(c *RunDesc) bool { c.Pair = pair; _, ok := run(c); return ok }, time.Now().Add(60*time.Second))
		a.Pair = nil
		b := minimise(pair, func(c *RunDesc) bool { x := a.clone(); x.Pair = c; _, ok := run(x); return ok }, deadline)
		a.Pair = b
		a.Expect, a.OrigOps, a.Minimised = target, d.OrigOps, true
		d = a
	} else {
		d.Note = "the pair did not reproduce the disagreement when both histories were re-executed; kept unminimised"
	}
	ok := 0
	for i := 0; i < 3; i++ {
		if r, good := run(d); good {
			ok++
			for _, v := range r.Violations {
				if v.Sig == target {
					detail = v.Detail
				}
			}
		}
	}
	d.Reproduced = fmt.Sprintf("%d/3", ok)
	_ = writeJSON(path, d)
	return path, []string{target}, detail
}

func (e *driverEnv) evidence(pl plan, a *agg, wall, mainWall float64, mainRuns, extraRuns uint64, violations, knownHits, detChecked, detMismatch int, infra []string, replays []string) map[string]any {
	var sitesTotal int
	var sf struct {
		Sites     []json.RawMessage `json:"sites"`
		MapRanges int               `json:"map_ranges"`
		LockShims int               `json:"lock_shims"`
		OnceShims int               `json:"once_shims"`
		ChanShims int               `json:"chan_shims"`
		SelShims  int               `json:"select_shims"`
		WGShims   int               `json:"waitgroup_shims"`
		ClkShims  int               `json:"clock_shims"`
		GoStmts   int               `json:"go_statements"`
		Packages  []string          `json:"packages"`
	}
	if b, err := os.ReadFile(e.sites); err == nil {
		_ = json.Unmarshal(b, &sf)
		sitesTotal = len(sf.Sites)
	}
	samples := []any{}
	for _, s := range a.samples {
		samples = append(samples, s)
	}
	// one complete run description as a sample
	samples = append(samples, generate(e.prop, e.tier, e.base, 5)) // an ordinary run (C15: runs 0-2 of a block are sweeps with thousands of operations)
	distinct := len(a.caseKeys)
	rule := ""
	switch e.prop {
	case "C12":
		rule = "Each run is a seeded object life-cycle history (nil-receiver sweep, fresh-constructor sweep, 4-16 decodes of generated valid/edited/raw vectors through all 12 decoder entry points, observers on the result or on the receiver left behind, and for decoded objects a complete one-at-a-time sweep of 'reset one exported field to the invalid value the library itself returns for garbage'). distinct_nontrivial counts distinct (decoder, input) pairs plus distinct (type, object state, observer) and (type, faulted field, queried level) tuples actually executed; a bare repeat of an identical tuple is not counted."
	case "C15":
		distinct = len(a.caseKeys)
		rule = "Each run is one OS process executing a seeded history (5-200 operations, thorough: up to 2000) of decodes, re-decodes on used receivers, field assignments, queries, report constructions, exports (immediate and deferred reads), lookups and aged-vs-rebuilt-twin comparisons (twin = same decodes and assignments, no queries, observers called in reverse order) over inputs drawn from a pool shared by blocks of 400 runs (with families of near-collisions: other CVSS 3.x version, one metric changed, a group dropped), with map iteration order permuted per range execution; identical operations are also compared across processes. distinct_nontrivial counts distinct histories (by hash of the operation list) that contain at least one operation repeated at a non-adjacent position; histories without such a repeat are not counted."
	case "C16":
		rule = "Each run builds a shared world (decoded objects, reports), executes 2-8 tasks' operation lists sequentially for reference and then concurrently under a seeded scheduler (no pre-emption / Bernoulli p in {0.01,0.1,0.5,1} / PCT depth<=3 / I/O-only pre-emption) at statement-level yield points, with the task hand-off hidden from the race detector; the concurrent phase runs first on untouched objects, worker processes alternate between two race builds (sync.Pool never caching / stock sync.Pool). distinct_nontrivial counts distinct concurrent-phase event-log fingerprints of runs with at least one pre-emption (a run without pre-emption is trivial for interleaving purposes, though the race verdict still covers it)."
	case "C19":
		rule = "Each run builds 1-3 reports (level x language x vector) and exports generated template programs (valid / broken / character-edited) through ExportWithString, through simulated readers with benign scripts (chunking, stalls, data+EOF, WriterTo) and failing scripts, plus a complete sweep of the failure offset k in [0,len] x {error alone, error with data} for every template of at most 256 bytes, and nil-report / nil-reader cases; every second export operation reads the returned readers only after the following operation's exports (deferred read); reference = text/template itself. distinct_nontrivial counts distinct (fault class, reference verdict, script shape, template class) tuples in which the fault actually fired or the benign script was actually exercised."
	}
	cov := map[string]any{
		"evaluations":                      a.runs,
		"distinct_nontrivial":              distinct,
		"rule":                             rule,
		"samples":                          samples,
		"exhaustive":                       false,
		"operations_executed":              a.ops,
		"logical_steps_yield_events":       a.yields + a.seqYields,
		"slowest_run_ms":                   a.slowestMs,
		"slowest_run_index":                a.slowestRun,
		"simulated_time":                   simTimeNote(a),
		"simulated_clock_reads_by_library": a.clockReads,
		"simulated_time_offered_hours":     int64(a.simNanos / 3600e9),
		"context_switches":                 a.switches,
		"preemptions":                      a.preempt,
		"runs_with_preemption":             a.withPreempt,
		"map_range_executions_under_simulated_order": a.mapRanges,
		"distinct_run_fingerprints":                  len(a.fps),
		"distinct_switch_site_pairs":                 len(a.switchPairs),
		"yield_sites_instrumented":                   sitesTotal,
		"yield_sites_reached":                        len(a.hits),
		"harness_io_yields":                          a.ioYields,
		"map_ranges_instrumented":                    sf.MapRanges,
		"lock_shims":                                 sf.LockShims,
		"once_shims":                                 sf.OnceShims,
		"channel_shims":                              sf.ChanShims,
		"select_shims":                               sf.SelShims,
		"waitgroup_shims":                            sf.WGShims,
		"clock_shims":                                sf.ClkShims,
		"go_statements_in_library":                   sf.GoStmts,
		"decodes_ok":                                 a.decOK,
		"decodes_failed":                             a.decFail,
		"exports":                                    a.exports,
		"export_errors":                              a.exportErr,
		"race_reports":                               a.raceReports,
		"race_detector":                              pl.race,
		"runs_race_build":                            mainRuns,
		"runs_nonrace_build_extra":                   extraRuns,
		"runs_per_hour":                              int(float64(a.runs) / wall * 3600),
		"seeds_per_hour":                             int(float64(a.runs) / wall * 3600),
		"first_run_index":                            0,
		"last_run_index":                             a.maxIndex,
		"workers":                                    e.workers,
		"schedule_policies":                          intMap(a.policies, []string{"none", "bernoulli", "pct", "explicit"}),
		"tasks_per_run":                              intMap(a.tasksHist, nil),
		"counters":                                   a.counters,
		"faults_fired": map[string]any{
			"reader_calls": a.fault.Reads, "stalls_0_nil": a.fault.Stalls, "short_chunks": a.fault.ShortChunks, "one_byte_chunks": a.fault.OneByte,
			"eof_with_data": a.fault.EOFWithData, "read_errors": a.fault.ErrFired, "read_errors_with_data": a.fault.ErrWithData,
			"writer_to_calls": a.fault.WriterToCalls, "writer_to_short": a.fault.WriterToShort, "nil_reader": a.fault.NilReader,
			"error_kinds": errKindMap(a.fault.ErrKinds),
			// state faults and aborted operations (C12, C15)
			"state_fault_field_reset":                  a.counters["state-faults"],
			"state_fault_field_reset_after_queries":    a.counters["state-faults-after-queries"],
			"state_fault_obliging_queries":             a.counters["state-faults-obliging"],
			"aborted_decode_receiver_observed":         a.counters["left-behind-observed"],
			"aborted_decode_receiver_in_invalid_state": a.counters["left-behind-invalid-state"],
			"nil_receiver_sweeps":                      a.counters["nils-sweeps"],
			"redecode_on_used_receiver":                a.counters["state-changes-redec"],
			"field_assignment":                         a.counters["state-changes-set"],
			"deferred_reader_reads":                    a.counters["deferred-reads"],
			// workload shapes and blocking shims (C16)
			"sibling_report_bursts": a.counters["sibling-bursts"],
			"export_storms":         a.counters["export-storms"],
			"blocked_hand_overs":    a.counters["blocked-switches"],
		},
		"cross_process_keys_compared": a.crossShared,
		"cross_process_keys_seen":     a.crossSeen,
		"determinism_reexecuted":      detChecked,
		"determinism_mismatches":      detMismatch,
		"known_findings_matched":      knownHits,
		"replay_files":                replays,
		"harness_trouble":             append(append([]string{}, infra...), a.trouble...),
		"real_components":             []string{"cvsserr", "v2/metric", "v3/metric", "v3/report", "v3/report/names", "v3/version (instrumented copies of /repo's working tree)", "github.com/goark/errs", "golang.org/x/text/language", "text/template", "io", "bytes", "fmt", "Go race detector (C16)"},
		"stubbed_components":          []string{"choice of which caller goroutine runs (seeded scheduler, hand-off by raw pipe syscalls invisible to the race detector)", "map iteration order (simrt.MapSeq)", "the io.Reader handed to ExportWith (fault-script reader)"},
	}
	return map[string]any{
		"property_id": e.prop,
		"tier":        e.tier,
		"seed":        e.base,
		"level":       "exploration",
		"coverage":    cov,
		"assumptions": []string{
			"the instrumented copy behaves like the shipped code (gate: the repository's own test suite passes on the instrumented copy before any run)",
			"pre-emption happens at statement boundaries of the library and at reader calls only",
			"the Go race detector reports every pair of conflicting accesses not ordered by synchronisation that it still has in shadow memory",
			"sampling: a clean batch is evidence over the listed runs, not a proof",
		},
		"wall_s":     wall,
		"violations": violations,
	}
}

func simTimeNote(a *agg) string {
	if a.clockReads == 0 {
		return "the library never read the clock (time.Now/Since/Until/Sleep/After are behind a simulated clock with per-task timelines and jumps of 1 ms .. 400 days between operations; 0 reads); progress is measured in yield events (logical steps)"
	}
	return fmt.Sprintf("simulated clock with per-task timelines and jumps of 1 ms .. 400 days between operations; the library read it %d times", a.clockReads)
}

func intMap(m map[int]int, names []string) map[string]int {
	out := map[string]int{}
	for k, v := range m {
		if names != nil && k >= 0 && k < len(names) {
			out[names[k]] = v
		} else {
			out[fmt.Sprint(k)] = v
		}
	}
	return out
}

func errKindMap(a [8]uint64) map[string]uint64 {
	out := map[string]uint64{}
	for i, n := range injectedErrorNames {
		out[n] = a[i]
	}
	return out
}

// selftestDeterminism: n seeds, each executed in fresh processes at GOMAXPROCS
// 1, 4, 16 and (C16) in both builds; all fingerprints per seed must agree.
func selftestDeterminism(prop, tier string, n int) int {
	e := &driverEnv{prop: prop, tier: tier}
	e.base = envUint("VERIF_SEED", 20260101)
	e.raceBin = os.Getenv("CVSSSIM_RACE_BIN")
	e.noraceBin = os.Getenv("CVSSSIM_NORACE_BIN")
	e.tmp = os.Getenv("CVSSSIM_TMP")
	if e.tmp == "" {
		e.tmp = os.TempDir()
	}
	pl := planFor(prop, tier)
	type key struct {
		i    int
		race bool
	}
	bad := 0
	var mu sync.Mutex
	var wg sync.WaitGroup
	sem := make(chan struct{}, runtime.NumCPU())
	total := 0
	for i := 0; i < n; i++ {
		wg.Add(1)
		sem <- struct{}{}
		go func(i int) {
			defer wg.Done()
			defer func() { <-sem }()
			var fps []uint64
			builds := []bool{false}
			if pl.race {
				builds = []bool{true, false}
			}
			for _, rb := range builds {
				for _, g := range []int{1, 4, 16, 4} {
					res, _, se, err := e.execSingle(rb, g, "one", "-prop", prop, "-tier", tier, "-base", fmt.Sprint(e.base), "-index", fmt.Sprint(i))
					if err != nil {
						mu.Lock()
						bad++
						fmt.Printf("selftest %s index %d: %v %s\n", prop, i, err, clip(se, 200))
						mu.Unlock()
						return
					}
					fps = append(fps, res.FP)
				}
			}
			mu.Lock()
			total += len(fps)
			for _, f := range fps {
				if f != fps[0] {
					bad++
					fmt.Printf("selftest %s index %d: fingerprints differ: %x\n", prop, i, fps)
					break
				}
			}
			mu.Unlock()
		}(i)
	}
	wg.Wait()
	fmt.Printf("selftest-determinism %s: %d seeds, %d executions, %d mismatching seeds\n", prop, n, total, bad)
	if bad > 0 {
		return 2
	}
	return 0
}
