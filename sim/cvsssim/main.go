// cvsssim: deterministic simulation harness for go-cvss (C12, C15, C16, C19).
//
//	cvsssim worker -prop P -tier T -base S -from A -n N     batch of runs, JSONL on stdout
//	cvsssim one    -prop P -tier T -base S -index I [-desc out.json]
//	cvsssim replay -file F                                  re-execute a replay file
//	cvsssim gen    -prop P -tier T -base S -index I         print the run description
//	cvsssim drive  -prop P -tier T                          the whole check (spawns workers)
package main

import (
	"bufio"
	"encoding/json"
	"flag"
	"fmt"
	"os"
	"strconv"
	"time"

	"simrt"
)

func propTag(p string) uint64 { return hashString("prop:" + p) }

// generate is a pure function of (prop, tier, base seed, run index).
func generate(prop, tier string, base, index uint64) *RunDesc {
	d := &RunDesc{Prop: prop, Tier: tier, BaseSeed: base, RunIndex: index}
	d.Seed = simrt.SplitMix(simrt.Mix(base, propTag(prop)), index)
	switch prop {
	case "C12":
		genC12(d, tier)
	case "C15":
		genC15(d, tier)
	case "C16":
		genC16(d, tier)
	case "C19":
		genC19(d, tier)
	default:
		fmt.Fprintln(os.Stderr, "unknown property", prop)
		os.Exit(2)
	}
	return d
}

// execute runs a description.  Pure function of (description, code).
func execute(d *RunDesc) *RunResult {
	res := &RunResult{Prop: d.Prop, Seed: d.Seed, RunIndex: d.RunIndex}
	b, _ := json.Marshal(d.Tasks)
	res.Stats.DescHash = hashString(string(b))
	switch d.Prop {
	case "C12":
		runC12(d, res)
	case "C15":
		runC15(d, res)
	case "C16":
		runC16(d, res)
	case "C19":
		runC19(d, res)
	}
	return res
}

var watchdogCh = make(chan uint64, 1)

// startWatchdog: wall-clock guard against hangs (a task blocked in something the
// shims do not cover, an endless loop).  Harness trouble, never a violation.
// It only reads a clock to decide whether to give up; nothing it does feeds back
// into a run.
func startWatchdog(limit time.Duration) {
	go func() {
		var cur uint64
		t := time.NewTimer(limit)
		for {
			select {
			case cur = <-watchdogCh:
				if !t.Stop() {
					select {
					case <-t.C:
					default:
					}
				}
				t.Reset(limit)
			case <-t.C:
				fmt.Printf("{\"watchdog\":%d}\n", cur)
				fmt.Fprintf(os.Stderr, "WATCHDOG: run %d made no progress for %v\n", cur, limit)
				os.Exit(3)
			}
		}
	}()
}

func main() {
	if len(os.Args) < 2 {
		fmt.Fprintln(os.Stderr, "usage: cvsssim worker|one|replay|gen|drive ...")
		os.Exit(2)
	}
	mode := os.Args[1]
	fs := flag.NewFlagSet(mode, flag.ExitOnError)
	prop := fs.String("prop", "", "property id")
	tier := fs.String("tier", "quick", "quick|thorough")
	base := fs.Uint64("base", 1, "base seed (VERIF_SEED)")
	from := fs.Uint64("from", 0, "first run index")
	n := fs.Uint64("n", 1, "number of runs")
	index := fs.Uint64("index", 0, "run index")
	descOut := fs.String("desc", "", "write the executed description (with the concrete schedule) here")
	file := fs.String("file", "", "replay file")
	wd := fs.Duration("watchdog", 60*time.Second, "per-run wall-clock watchdog")
	_ = fs.Parse(os.Args[2:])

	simrt.DeadlockHook = func() {}

	switch mode {
	case "gen":
		d := generate(*prop, *tier, *base, *index)
		b, _ := json.MarshalIndent(d, "", " ")
		fmt.Println(string(b))
	case "worker":
		startWatchdog(*wd)
		out := bufio.NewWriterSize(os.Stdout, 1<<16)
		enc := json.NewEncoder(out)
		for i := *from; i < *from+*n; i++ {
			watchdogCh <- i
			fmt.Fprintf(out, "{\"begin\":%d}\n", i)
			out.Flush()
			d := generate(*prop, *tier, *base, i)
			res := execute(d)
			if len(res.Violations) == 0 {
				res.Switches = nil
			}
			_ = enc.Encode(res)
		}
		hits, io := simrt.Hits()
		_ = enc.Encode(map[string]any{"done": true, "hits": hits, "io_yields": io})
		out.Flush()
	case "one":
		startWatchdog(*wd)
		d := generate(*prop, *tier, *base, *index)
		res := execute(d)
		if *descOut != "" {
			d.Sched.Explicit = res.Switches
			if d.Prop == "C16" {
				d.Sched.Policy = simrt.PolicyExplicit
			}
			_ = writeJSON(*descOut, d)
		}
		res.Switches = nil
		b, _ := json.Marshal(res)
		fmt.Println(string(b))
	case "replay":
		startWatchdog(*wd)
		d, err := readDesc(*file)
		if err != nil {
			fmt.Fprintln(os.Stderr, "replay:", err)
			os.Exit(2)
		}
		res := execute(d)
		res.Switches = nil
		b, _ := json.Marshal(res)
		fmt.Println(string(b))
	case "drive":
		os.Exit(drive(*prop, *tier))
	case "selftest-determinism":
		os.Exit(selftestDeterminism(*prop, *tier, int(*n)))
	default:
		fmt.Fprintln(os.Stderr, "unknown mode", mode)
		os.Exit(2)
	}
}

func envUint(name string, def uint64) uint64 {
	if s := os.Getenv(name); s != "" {
		if v, err := strconv.ParseUint(s, 10, 64); err == nil {
			return v
		}
		if v, err := strconv.ParseInt(s, 10, 64); err == nil {
			return uint64(v)
		}
	}
	return def
}
