// cvsssim: deterministic simulation harness for go-cvss (C12, C15, C16, C19).
//
//	cvsssim worker -prop P -tier T -base S -from A -n N     batch of runs, JSONL on stdout
//	cvsssim one    -prop P -tier T -base S -index I [-desc out.json]
//	cvsssim replay -file F                                  re-execute a replay file
//	cvsssim gen    -prop P -tier T -base S -index I         print the run description
//	cvsssim drive  -prop P -tier T                          the whole check (spawns workers)
package main

import (
	"bufio"
	"bytes"
	"encoding/json"
	"flag"
	"fmt"
	"os"
	"os/exec"
	"strconv"
	"sync/atomic"
	"time"

	"simrt"
)

func propTag(p string) uint64 { return hashString("prop:" + p) }

// generate is a pure function of (prop, tier, base seed, run index).
func generate(prop, tier string, base, index uint64) *RunDesc {
	d := &RunDesc{Prop: prop, Tier: tier, BaseSeed: base, RunIndex: index}
	d.Seed = simrt.SplitMix(simrt.Mix(base, propTag(prop)), index)
	switch prop {
	case "C12":
		genC12(d, tier)
	case "C15":
		genC15(d, tier)
	case "C16":
		genC16(d, tier)
	case "C19":
		genC19(d, tier)
	default:
		fmt.Fprintln(os.Stderr, "unknown property", prop)
		os.Exit(2)
	}
	// simulated time between operations: mostly none, sometimes a jump (a cache
	// with an expiry, a timestamp, a "last used" heuristic would notice)
	tk := newRng(simrt.Mix(d.Seed, 5))
	jumps := []int64{1e6, 1e9, 60e9, 3600e9, 25 * 3600e9, 400 * 24 * 3600e9}
	for t := range d.Tasks {
		for i := range d.Tasks[t] {
			if tk.chance(3, 10) {
				d.Tasks[t][i].Tick = pick(tk, jumps)
			}
		}
	}
	return d
}

// execute runs a description.  Pure function of (description, code).
func execute(d *RunDesc) *RunResult {
	res := &RunResult{Prop: d.Prop, Seed: d.Seed, RunIndex: d.RunIndex}
	for _, t := range d.Tasks {
		for _, op := range t {
			res.Stats.SimNanos += op.Tick
		}
	}
	if d.nOps() <= 20000 {
		b, _ := json.Marshal(d.Tasks)
		res.Stats.DescHash = hashString(string(b))
	} else {
		res.Stats.DescHash = simrt.Mix(d.Seed, uint64(d.nOps())) // huge description: not worth serialising
	}
	switch d.Prop {
	case "C12":
		runC12(d, res)
	case "C15":
		runC15(d, res)
	case "C16":
		runC16(d, res)
	case "C19":
		runC19(d, res)
	}
	return res
}

const simDeadlock = "SIM-DEADLOCK: the operation waits for a lock that only itself, or tasks that wait for it, could release"

// progress markers for the watchdog (set at the start of every run)
var wdRun, wdEpoch uint64

func watchdogProgress(run uint64) {
	atomic.StoreUint64(&wdRun, run)
	atomic.AddUint64(&wdEpoch, 1)
}

// startWatchdog: wall-clock guard against hangs (a task blocked in something the
// shims do not cover, an endless loop).  Harness trouble, never a violation.
// It only reads a clock to decide whether to give up; nothing it does feeds back
// into a run.
func startWatchdog(limit time.Duration) {
	go func() {
		// Counts one-second ticks instead of comparing clock readings: when the
		// whole machine is frozen for a while (a VM snapshot, a suspended container)
		// a single tick merely arrives late, whereas a deadline would be overrun at
		// once although the run made no step it could have made.
		ticks := 0
		need := int(limit / time.Second)
		if need < 5 {
			need = 5
		}
		var lastEpoch uint64
		for {
			time.Sleep(time.Second)
			if e := atomic.LoadUint64(&wdEpoch); e != lastEpoch {
				lastEpoch, ticks = e, 0
				continue
			}
			ticks++
			cur := atomic.LoadUint64(&wdRun)
			if ticks > need {
				fmt.Printf("{\"watchdog\":%d}\n", cur)
				fmt.Fprintf(os.Stderr, "WATCHDOG: run %d made no progress for %v\n", cur, limit)
				os.Exit(3)
			}
		}
	}()
}

func main() {
	if len(os.Args) < 2 {
		fmt.Fprintln(os.Stderr, "usage: cvsssim worker|one|replay|gen|drive ...")
		os.Exit(2)
	}
	mode := os.Args[1]
	fs := flag.NewFlagSet(mode, flag.ExitOnError)
	prop := fs.String("prop", "", "property id")
	tier := fs.String("tier", "quick", "quick|thorough")
	base := fs.Uint64("base", 1, "base seed (VERIF_SEED)")
	from := fs.Uint64("from", 0, "first run index")
	n := fs.Uint64("n", 1, "number of runs")
	index := fs.Uint64("index", 0, "run index")
	descOut := fs.String("desc", "", "write the executed description (with the concrete schedule) here")
	file := fs.String("file", "", "replay file")
	wd := fs.Duration("watchdog", 60*time.Second, "per-run wall-clock watchdog")
	_ = fs.Parse(os.Args[2:])

	// A simulated deadlock aborts the operation that can never return; guard()
	// turns the panic into a result the oracles recognise.
	simrt.DeadlockHook = func() { panic(simDeadlock) }
	// Does the instrumented library start goroutines of its own?  Then yields
	// must check who is calling (see simrt.SetCheckGoroutine).
	if b, err := os.ReadFile(os.Getenv("CVSSSIM_SITES")); err == nil {
		var sf struct {
			GoStmts int `json:"go_statements"`
			Sites   []struct {
				ID  uint32 `json:"id"`
				Hot bool   `json:"hot"`
			} `json:"sites"`
		}
		if json.Unmarshal(b, &sf) == nil {
			if sf.GoStmts > 0 {
				simrt.SetCheckGoroutine(true)
			}
			var hot []uint32
			for _, s := range sf.Sites {
				if s.Hot {
					hot = append(hot, s.ID)
				}
			}
			simrt.SetHotSites(hot)
		}
	}

	switch mode {
	case "gen":
		d := generate(*prop, *tier, *base, *index)
		b, _ := json.MarshalIndent(d, "", " ")
		fmt.Println(string(b))
	case "worker":
		startWatchdog(*wd)
		out := bufio.NewWriterSize(os.Stdout, 1<<16)
		enc := json.NewEncoder(out)
		for i := *from; i < *from+*n; i++ {
			watchdogProgress(i)
			fmt.Fprintf(out, "{\"begin\":%d}\n", i)
			out.Flush()
			d := generate(*prop, *tier, *base, i)
			t0 := time.Now()
			res := execute(d)
			res.Stats.WallMs = time.Since(t0).Milliseconds()
			if len(res.Violations) == 0 {
				res.Switches = nil
			}
			_ = enc.Encode(res)
		}
		hits, io := simrt.Hits()
		_ = enc.Encode(workerDone{Done: true, Hits: hits, IOYields: io, ClockReads: simrt.ClockReads()})
		out.Flush()
	case "one":
		startWatchdog(*wd)
		d := generate(*prop, *tier, *base, *index)
		res := execute(d)
		if *descOut != "" {
			d.Sched.Explicit = res.Switches
			if d.Prop == "C16" {
				d.Sched.Policy = simrt.PolicyExplicit
				d.Sched.Sweep = false // the replay is the one schedule that failed
			}
			_ = writeJSON(*descOut, d)
		}
		res.Switches = nil
		b, _ := json.Marshal(res)
		fmt.Println(string(b))
	case "replay":
		startWatchdog(*wd)
		d, err := readDesc(*file)
		if err != nil {
			fmt.Fprintln(os.Stderr, "replay:", err)
			os.Exit(2)
		}
		var res *RunResult
		if d.Pair != nil {
			res = replayPair(d)
		} else {
			if d.PrefixFrom != nil {
				for i := *d.PrefixFrom; i < d.RunIndex; i++ {
					_ = execute(generate(d.Prop, d.Tier, d.BaseSeed, i))
				}
			}
			res = execute(d)
		}
		res.Switches = nil
		b, _ := json.Marshal(res)
		fmt.Println(string(b))
	case "drive":
		os.Exit(drive(*prop, *tier))
	case "selftest-determinism":
		os.Exit(selftestDeterminism(*prop, *tier, int(*n)))
	default:
		fmt.Fprintln(os.Stderr, "unknown mode", mode)
		os.Exit(2)
	}
}

func envUint(name string, def uint64) uint64 {
	if s := os.Getenv(name); s != "" {
		if v, err := strconv.ParseUint(s, 10, 64); err == nil {
			return v
		}
		if v, err := strconv.ParseInt(s, 10, 64); err == nil {
			return uint64(v)
		}
	}
	return def
}

// replayPair executes the two histories of a cross-process finding, each in a
// fresh process of this same binary, and compares the results of the operations
// they have in common.
func replayPair(d *RunDesc) *RunResult {
	res := &RunResult{Prop: d.Prop, Seed: d.Seed, RunIndex: d.RunIndex}
	a := d.clone()
	a.Pair = nil
	b := d.Pair.clone()
	b.Pair = nil
	runOne := func(x *RunDesc, tag string) *RunResult {
		f, err := os.CreateTemp("", "cvsssim-pair-"+tag+"-*.json")
		if err != nil {
			res.Trouble = err.Error()
			return nil
		}
		f.Close()
		defer os.Remove(f.Name())
		if err := writeJSON(f.Name(), x); err != nil {
			res.Trouble = err.Error()
			return nil
		}
		cmd := exec.Command(os.Args[0], "replay", "-file", f.Name())
		cmd.Env = append(os.Environ(), "CVSSSIM_CROSS_VERBOSE=1")
		out, err := cmd.Output()
		if err != nil {
			res.addViolation("fatal:process died", fmt.Sprintf("history %s: %v", tag, err), 0, -1)
			return nil
		}
		for _, line := range bytes.Split(out, []byte("\n")) {
			if bytes.HasPrefix(line, []byte(`{"prop":`)) {
				var r RunResult
				if json.Unmarshal(line, &r) == nil {
					return &r
				}
			}
		}
		res.Trouble = "pair replay: no result from history " + tag
		return nil
	}
	ra, rb := runOne(a, "A"), runOne(b, "B")
	if ra == nil || rb == nil {
		return res
	}
	for _, r := range []*RunResult{ra, rb} {
		for _, v := range r.Violations {
			res.addViolation(v.Sig, v.Detail, v.Task, v.Op)
		}
	}
	first := map[string][3]string{}
	for _, kv := range ra.Stats.CrossDetail {
		first[kv[0]] = kv
	}
	for _, kv := range rb.Stats.CrossDetail {
		if p, ok := first[kv[0]]; ok && p[2] != kv[2] {
			res.addViolation("history:cross-process", fmt.Sprintf("the same operation on the same input gives different results in two processes with different histories.\nkey: %s\nhistory A: %s\nhistory B: %s", kv[1], p[2], kv[2]), 0, -1)
			break
		}
	}
	res.Stats.Ops = a.nOps() + b.nOps()
	res.FP = simrt.Mix(ra.FP, rb.FP)
	return res
}
