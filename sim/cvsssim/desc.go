package main

// desc.go: the run description.  A run is a pure function of (description, code).
// A replay file is a description with an explicit schedule and the expected
// violation signature.

import (
	"encoding/json"
	"os"

	"simrt"
)

type Ref struct {
	Shared bool `json:"sh,omitempty"`
	I      int  `json:"i"`
}

// Op is one operation of a task.  Which fields matter depends on K.
//
//	dec   decode Vec with decoder Kind (NilRecv: through a typed nil receiver) into slot Dst
//	obs   observer Obs ("all" or one name) on object Obj (LB: the receiver left behind by a failed decode)
//	rep   build the report of object Obj in language Lang into report slot Dst
//	exp   export report Rep with template Tmpl, Via "str" or "rd" (reader with script Fault)
//	lkp   table lookup Fn(SArg|IArg, Lang)
//	redec decode Vec again on the receiver of slot Obj (re-used receiver)
//	set   assign exported field number IArg of object Obj: the value of the same field of Donor, or the invalid value
//	inner keep only the embedded Field ("Base"/"Temporal") object of slot Obj, as slot Dst; the owner becomes unreachable
//	gc    force two garbage collections and let finalizers run
//	twin  (C15) rebuild object Obj from scratch (same decodes and assignments, no queries) and compare all observations
//	flt   (C12) reset exported field Field of object Obj to its zero (unknown/invalid) value
//	nils  (C12) all observers on the typed nil receivers of all six kinds
//	fresh (C12) all observers on fresh constructor results of all six kinds
//	nilrep (C19) export on the nil report of level Kind
type Op struct {
	K       string `json:"k"`
	Kind    int    `json:"kind,omitempty"`
	NilRecv bool   `json:"nilrecv,omitempty"`
	Vec     string `json:"vec,omitempty"`
	Dst     int    `json:"dst,omitempty"`
	Obj     *Ref   `json:"obj,omitempty"`
	LB      bool   `json:"lb,omitempty"`
	Rep     *Ref   `json:"rep,omitempty"`
	Donor   *Ref   `json:"donor,omitempty"`
	Obs     string `json:"obs,omitempty"`
	Lang    int    `json:"lang,omitempty"`
	Tmpl    string `json:"tmpl,omitempty"`
	Via     string `json:"via,omitempty"`
	Fault   *Fault `json:"fault,omitempty"`
	Fn      int    `json:"fn,omitempty"`
	SArg    string `json:"sarg,omitempty"`
	IArg    int    `json:"iarg,omitempty"`
	Field   string `json:"field,omitempty"`
	Defer   bool   `json:"defer,omitempty"`    // exp: keep the returned reader unread until the matching "read" op (IArg = Dst of the exp)
	Sweep   bool   `json:"sweep,omitempty"`    // C19: sweep err@k over all k for this export
	HasTemp bool   `json:"has_temp,omitempty"` // C12: generator knows the v2 temporal group is in Vec
	HasEnv  bool   `json:"has_env,omitempty"`
	Tick    int64  `json:"tick,omitempty"`  // nanoseconds the task's simulated clock advances before this operation
	Class   string `json:"class,omitempty"` // generator's recipe name, informational
}

type ObjSpec struct {
	Kind    int    `json:"kind"`
	NilRecv bool   `json:"nilrecv,omitempty"`
	Vec     string `json:"vec"`
	// Sets: exported fields the owner assigns after decoding and before the object
	// is shared
	Sets []WorldSet `json:"sets,omitempty"`
}

type WorldSet struct {
	Field    int    `json:"field"`
	DonorVec string `json:"donor_vec,omitempty"` // take the value this vector decodes to ("" = the invalid value)
}

type RepSpec struct {
	Obj  int `json:"obj"`
	Lang int `json:"lang"`
}

type SchedDesc struct {
	Policy    int            `json:"policy"`
	P         float64        `json:"p,omitempty"`
	HotP      float64        `json:"hot_p,omitempty"` // probability at "hot" sites (shared state, sync, stores)
	OnlyIO    bool           `json:"only_io,omitempty"`
	Seed      uint64         `json:"seed,omitempty"`
	Prio      []int          `json:"prio,omitempty"`
	PCTDepth  int            `json:"pct_depth,omitempty"`
	PCTPoints []uint64       `json:"pct_points,omitempty"`
	Explicit  []simrt.Switch `json:"explicit,omitempty"`
	Sweep     bool           `json:"sweep,omitempty"` // C16: afterwards, enumerate every single pre-emption at a hot yield of each task
}

type RunDesc struct {
	Prop      string    `json:"prop"`
	Seed      uint64    `json:"seed"`
	BaseSeed  uint64    `json:"base_seed"`
	RunIndex  uint64    `json:"run_index"`
	Tier      string    `json:"tier"`
	MapPolicy int       `json:"map_policy"`
	MapSeed   uint64    `json:"map_seed,omitempty"`
	Sched     SchedDesc `json:"sched"`
	World     []ObjSpec `json:"world,omitempty"`
	WorldReps []RepSpec `json:"world_reps,omitempty"`
	Tasks     [][]Op    `json:"tasks"`
	Storm     bool      `json:"storm,omitempty"`     // C16: one slow reader export while the other callers push dozens of reader exports
	Burst     bool      `json:"burst,omitempty"`     // C16: sibling reports (same object, two languages) exported with one template by every task
	CrossCap  int       `json:"cross_cap,omitempty"` // C15: how many (key,result) pairs this run reports for the cross-process comparison (default 600)
	// replay files only
	Pair  *RunDesc `json:"pair,omitempty"`  // C15 cross-process findings: a second history, executed in its own process
	Build string   `json:"build,omitempty"` // which build found it: "", "race", "race-stockpool"
	// PrefixFrom: the violation only shows after earlier runs of the same worker
	// process; replay first executes runs PrefixFrom..RunIndex-1 (regenerated from
	// the seed), then this description.
	PrefixFrom *uint64 `json:"prefix_from,omitempty"`
	Expect     string  `json:"expect,omitempty"`
	Reproduced string  `json:"reproduced,omitempty"`
	Note       string  `json:"note,omitempty"`
	Minimised  bool    `json:"minimised,omitempty"`
	OrigOps    int     `json:"orig_ops,omitempty"`
	OrigSw     int     `json:"orig_switches,omitempty"`
}

func (d *RunDesc) nOps() int {
	n := 0
	for _, t := range d.Tasks {
		n += len(t)
	}
	return n
}

func (d *RunDesc) clone() *RunDesc {
	b, _ := json.Marshal(d)
	var c RunDesc
	_ = json.Unmarshal(b, &c)
	return &c
}

type Violation struct {
	Sig    string `json:"sig"`
	Detail string `json:"detail"`
	Task   int    `json:"task"`
	Op     int    `json:"op"`
}

type RunStats struct {
	Ops         int            `json:"ops"`
	Yields      uint64         `json:"yields"`
	SeqYields   uint64         `json:"seq_yields,omitempty"`
	Switches    uint64         `json:"switches"`
	Preemptions uint64         `json:"preemptions"`
	MapRanges   uint64         `json:"map_ranges"`
	Tasks       int            `json:"tasks"`
	Policy      int            `json:"policy"`
	DecodeOK    int            `json:"decode_ok"`
	DecodeFail  int            `json:"decode_fail"`
	Exports     int            `json:"exports"`
	ExportErr   int            `json:"export_err"`
	RaceReports int            `json:"race_reports"`
	Fault       faultStats     `json:"fault"`
	Counters    map[string]int `json:"counters,omitempty"`
	SwitchPairs []uint64       `json:"switch_pairs,omitempty"` // hashes of (pre-empted site, resumed-at site)
	CaseKeys    []uint64       `json:"case_keys,omitempty"`    // hashes of non-trivial distinct cases (per-property rule)
	CrossKeys   [][2]uint64    `json:"cross_keys,omitempty"`   // C15: (key hash, result hash) for cross-process comparison
	CrossDetail [][3]string    `json:"cross_detail,omitempty"` // C15, replay of a pair only: (key hash, key, result)
	DescHash    uint64         `json:"desc_hash"`
	SimNanos    int64          `json:"sim_nanos,omitempty"` // simulated time offered (sum of ticks)
	WallMs      int64          `json:"wall_ms,omitempty"`   // real time this run took (informational; never part of a fingerprint or verdict)
	Sample      string         `json:"sample,omitempty"`
}

type RunResult struct {
	Prop       string         `json:"prop"`
	Seed       uint64         `json:"seed"`
	RunIndex   uint64         `json:"run_index"`
	FP         uint64         `json:"fp"`
	Violations []Violation    `json:"violations,omitempty"`
	Stats      RunStats       `json:"stats"`
	Switches   []simrt.Switch `json:"switch_list,omitempty"`
	Trouble    string         `json:"trouble,omitempty"` // harness trouble, never a violation
}

func (r *RunResult) addViolation(sig, detail string, task, op int) {
	for _, v := range r.Violations {
		if v.Sig == sig {
			return
		}
	}
	if len(detail) > 1500 {
		detail = detail[:1500] + "…"
	}
	r.Violations = append(r.Violations, Violation{Sig: sig, Detail: detail, Task: task, Op: op})
}

func (s *RunStats) count(k string) {
	if s.Counters == nil {
		s.Counters = map[string]int{}
	}
	s.Counters[k]++
}

func writeJSON(path string, v any) error {
	b, err := json.MarshalIndent(v, "", " ")
	if err != nil {
		return err
	}
	return os.WriteFile(path, append(b, '\n'), 0o644)
}

func readDesc(path string) (*RunDesc, error) {
	b, err := os.ReadFile(path)
	if err != nil {
		return nil, err
	}
	var d RunDesc
	if err := json.Unmarshal(b, &d); err != nil {
		return nil, err
	}
	return &d, nil
}

func (d *RunDesc) simConfig() simrt.Config {
	cfg := simrt.Config{
		Policy:    d.Sched.Policy,
		OnlyIO:    d.Sched.OnlyIO,
		SchedSeed: d.Sched.Seed,
		MapPolicy: d.MapPolicy,
		MapSeed:   d.MapSeed,
		Prio:      d.Sched.Prio,
		PCTPoints: d.Sched.PCTPoints,
		Explicit:  d.Sched.Explicit,
		MaxYields: 50_000_000,
	}
	thresh := func(p float64) uint64 {
		if p >= 1 {
			return ^uint64(0)
		}
		if p <= 0 {
			return 0
		}
		return uint64(p * float64(1<<63) * 2)
	}
	cfg.PThresh = thresh(d.Sched.P)
	cfg.HotThresh = thresh(d.Sched.HotP)
	return cfg
}
