package main

// lib.go: thin, explicit wrappers around the public API of go-cvss.  Everything
// the oracles observe goes through here.

import (
	"errors"
	"fmt"
	"io"
	"math"
	"reflect"
	"sort"
	"strconv"
	"strings"

	"github.com/goark/go-cvss/cvsserr"
	v2 "github.com/goark/go-cvss/v2/metric"
	v3 "github.com/goark/go-cvss/v3/metric"
	"github.com/goark/go-cvss/v3/report"
	"github.com/goark/go-cvss/v3/report/names"
	"github.com/goark/go-cvss/v3/version"
	"golang.org/x/text/language"
)

// Kind of metrics object / decoder.
const (
	KV3Base = iota
	KV3Temporal
	KV3Env
	KV2Base
	KV2Temporal
	KV2Env
	NKinds
)

var kindNames = [NKinds]string{"v3.Base", "v3.Temporal", "v3.Environmental", "v2.Base", "v2.Temporal", "v2.Environmental"}

// level: 0 base, 1 temporal, 2 environmental
func kindLevel(k int) int { return k % 3 }
func kindIsV2(k int) bool { return k >= 3 }

func newObj(k int) any {
	switch k {
	case KV3Base:
		return v3.NewBase()
	case KV3Temporal:
		return v3.NewTemporal()
	case KV3Env:
		return v3.NewEnvironmental()
	case KV2Base:
		return v2.NewBase()
	case KV2Temporal:
		return v2.NewTemporal()
	case KV2Env:
		return v2.NewEnvironmental()
	}
	panic("bad kind")
}

func nilObj(k int) any {
	switch k {
	case KV3Base:
		return (*v3.Base)(nil)
	case KV3Temporal:
		return (*v3.Temporal)(nil)
	case KV3Env:
		return (*v3.Environmental)(nil)
	case KV2Base:
		return (*v2.Base)(nil)
	case KV2Temporal:
		return (*v2.Temporal)(nil)
	case KV2Env:
		return (*v2.Environmental)(nil)
	}
	panic("bad kind")
}

func kindOf(p any) int {
	switch p.(type) {
	case *v3.Base:
		return KV3Base
	case *v3.Temporal:
		return KV3Temporal
	case *v3.Environmental:
		return KV3Env
	case *v2.Base:
		return KV2Base
	case *v2.Temporal:
		return KV2Temporal
	case *v2.Environmental:
		return KV2Env
	}
	return -1
}

func isNilObj(p any) bool {
	if p == nil {
		return true
	}
	rv := reflect.ValueOf(p)
	return rv.Kind() == reflect.Ptr && rv.IsNil()
}

func decodeWith(recv any, vec string) (any, error) {
	switch r := recv.(type) {
	case *v3.Base:
		return r.Decode(vec)
	case *v3.Temporal:
		return r.Decode(vec)
	case *v3.Environmental:
		return r.Decode(vec)
	case *v2.Base:
		return r.Decode(vec)
	case *v2.Temporal:
		return r.Decode(vec)
	case *v2.Environmental:
		return r.Decode(vec)
	}
	panic("bad receiver")
}

type metricsObj interface {
	Score() float64
	GetError() error
	Encode() (string, error)
	String() string
}

func asMetrics(p any) metricsObj { return p.(metricsObj) }

func severityOf(p any) (int, string) {
	switch r := p.(type) {
	case *v3.Base:
		s := r.Severity()
		return int(s), s.String()
	case *v3.Temporal:
		s := r.Severity()
		return int(s), s.String()
	case *v3.Environmental:
		s := r.Severity()
		return int(s), s.String()
	case *v2.Base:
		s := r.Severity()
		return int(s), s.String()
	case *v2.Temporal:
		s := r.Severity()
		return int(s), s.String()
	case *v2.Environmental:
		s := r.Severity()
		return int(s), s.String()
	}
	panic("bad object")
}

// baseMetricsOf calls the BaseMetrics accessor where the type has one.
func baseMetricsOf(p any) (any, bool) {
	switch r := p.(type) {
	case *v3.Base:
		return r.BaseMetrics(), true
	case *v3.Temporal:
		return r.BaseMetrics(), true
	case *v3.Environmental:
		return r.BaseMetrics(), true
	case *v2.Temporal:
		return r.BaseMetrics(), true
	case *v2.Environmental:
		return r.BaseMetrics(), true
	}
	return nil, false
}

func temporalMetricsOf(p any) (any, bool) {
	switch r := p.(type) {
	case *v3.Environmental:
		return r.TemporalMetrics(), true
	case *v2.Environmental:
		return r.TemporalMetrics(), true
	}
	return nil, false
}

// isEmptyOf calls v2 IsEmpty on non-nil receivers only (nil receivers are outside
// the listed queries, see DESIGN 5.1).
func isEmptyOf(p any) (bool, bool) {
	if isNilObj(p) {
		return false, false
	}
	switch r := p.(type) {
	case *v2.Temporal:
		return r.IsEmpty(), true
	case *v2.Environmental:
		return r.IsEmpty(), true
	}
	return false, false
}

var sentinels = []struct {
	name string
	err  error
}{
	{"NullPointer", cvsserr.ErrNullPointer},
	{"InvalidVector", cvsserr.ErrInvalidVector},
	{"NotSupportVer", cvsserr.ErrNotSupportVer},
	{"NotSupportMetric", cvsserr.ErrNotSupportMetric},
	{"InvalidTemplate", cvsserr.ErrInvalidTemplate},
	{"SameMetric", cvsserr.ErrSameMetric},
	{"InvalidValue", cvsserr.ErrInvalidValue},
	{"NoBaseMetrics", cvsserr.ErrNoBaseMetrics},
	{"NoTemporalMetrics", cvsserr.ErrNoTemporalMetrics},
	{"NoEnvironmentalMetrics", cvsserr.ErrNoEnvironmentalMetrics},
	{"Misordered", cvsserr.ErrMisordered},
}

// errClass renders an error canonically: the sentinels it matches and its text.
func errClass(err error) string {
	if err == nil {
		return "nil"
	}
	var sb strings.Builder
	sb.WriteString("err[")
	first := true
	for _, s := range sentinels {
		if errors.Is(err, s.err) {
			if !first {
				sb.WriteByte(',')
			}
			sb.WriteString(s.name)
			first = false
		}
	}
	sb.WriteString("]")
	sb.WriteString(strconv.Quote(err.Error()))
	return sb.String()
}

// errSentinels renders only the matched sentinels.
func errSentinels(err error) string {
	if err == nil {
		return "nil"
	}
	var out []string
	for _, s := range sentinels {
		if errors.Is(err, s.err) {
			out = append(out, s.name)
		}
	}
	return "err[" + strings.Join(out, ",") + "]"
}

func fbits(f float64) string {
	return strconv.FormatFloat(f, 'g', -1, 64) + "#" + strconv.FormatUint(math.Float64bits(f), 16)
}

// snapshot renders the exported fields of p (through embedded pointers),
// never touching unexported bookkeeping.
func snapshot(p any) string {
	var sb strings.Builder
	snapValue(&sb, reflect.ValueOf(p), 0)
	return sb.String()
}

func snapValue(sb *strings.Builder, v reflect.Value, depth int) {
	if depth > 8 {
		sb.WriteString("<deep>")
		return
	}
	switch v.Kind() {
	case reflect.Ptr:
		if v.IsNil() {
			sb.WriteString("<nil>")
			return
		}
		sb.WriteByte('&')
		snapValue(sb, v.Elem(), depth+1)
	case reflect.Struct:
		t := v.Type()
		sb.WriteString(t.Name())
		sb.WriteByte('{')
		for i := 0; i < v.NumField(); i++ {
			f := t.Field(i)
			if !f.IsExported() {
				continue
			}
			sb.WriteString(f.Name)
			sb.WriteByte('=')
			snapValue(sb, v.Field(i), depth+1)
			sb.WriteByte(';')
		}
		sb.WriteByte('}')
	case reflect.Int, reflect.Int8, reflect.Int16, reflect.Int32, reflect.Int64:
		sb.WriteString(strconv.FormatInt(v.Int(), 10))
	case reflect.String:
		sb.WriteString(strconv.Quote(v.String()))
	case reflect.Float64, reflect.Float32:
		sb.WriteString(fbits(v.Float()))
	case reflect.Bool:
		sb.WriteString(strconv.FormatBool(v.Bool()))
	default:
		fmt.Fprintf(sb, "<%s>", v.Kind())
	}
}

// Observers, by name.  Each returns a canonical rendering of its result.
var observerNames = []string{"Score", "Severity", "GetError", "Encode", "String", "BaseMetrics", "TemporalMetrics", "IsEmpty"}

func observe(p any, name string) string {
	switch name {
	case "Score":
		return "Score=" + fbits(asMetrics(p).Score())
	case "Severity":
		n, s := severityOf(p)
		return "Severity=" + strconv.Itoa(n) + ":" + s
	case "GetError":
		return "GetError=" + errClass(asMetrics(p).GetError())
	case "Encode":
		s, err := asMetrics(p).Encode()
		return "Encode=" + strconv.Quote(s) + "," + errClass(err)
	case "String":
		return "String=" + strconv.Quote(asMetrics(p).String())
	case "BaseMetrics":
		b, ok := baseMetricsOf(p)
		if !ok {
			return "BaseMetrics=n/a"
		}
		if isNilObj(b) {
			return "BaseMetrics=<nil>"
		}
		return "BaseMetrics=" + observeLevel(b)
	case "TemporalMetrics":
		t, ok := temporalMetricsOf(p)
		if !ok {
			return "TemporalMetrics=n/a"
		}
		if isNilObj(t) {
			return "TemporalMetrics=<nil>"
		}
		return "TemporalMetrics=" + observeLevel(t)
	case "IsEmpty":
		e, ok := isEmptyOf(p)
		if !ok {
			return "IsEmpty=n/a"
		}
		return "IsEmpty=" + strconv.FormatBool(e)
	}
	panic("unknown observer " + name)
}

// observeLevel: the own-level queries of one object.
func observeLevel(p any) string {
	var sb strings.Builder
	sb.WriteByte('(')
	for _, n := range []string{"Score", "Severity", "GetError", "Encode", "String", "IsEmpty"} {
		sb.WriteString(observe(p, n))
		sb.WriteByte(' ')
	}
	sb.WriteByte(')')
	return sb.String()
}

// observeAll: the full observation vector of an object, including the embedded
// lower levels reached through the accessors.
func observeAll(p any) string { return observeAllOrder(p, false) }

// observeAllOrder renders the same vector but, when reverse is set, *calls* the
// observers in the opposite order (the rendering order stays canonical).  On code
// whose queries have no side effects the result is the same.
func observeAllOrder(p any, reverse bool) string {
	vals := make([]string, len(observerNames))
	for j := range observerNames {
		i := j
		if reverse {
			i = len(observerNames) - 1 - j
		}
		vals[i] = observe(p, observerNames[i])
	}
	var sb strings.Builder
	for _, v := range vals {
		sb.WriteString(v)
		sb.WriteByte('\n')
	}
	return sb.String()
}

// ---------------------------------------------------------------------------
// Reports

var langs = []struct {
	name string
	set  bool
	tag  language.Tag
}{
	{"default", false, language.Und},
	{"en", true, language.English},
	{"ja", true, language.Japanese},
	{"und", true, language.Und},
	{"fr", true, language.French},
	{"en-US", true, language.AmericanEnglish},
	{"ja-JP", true, language.MustParse("ja-JP")},
	{"en-GB", true, language.BritishEnglish},
	{"de", true, language.German},
	{"ko", true, language.Korean},
	{"zh", true, language.Chinese},
	{"ru", true, language.Russian},
	{"el", true, language.Greek},
	{"ar", true, language.Arabic},
}

func langIndex(name string) int {
	for i, l := range langs {
		if l.name == name {
			return i
		}
	}
	return 0
}

func reportOpts(li int) []report.ReportOptionsFunc {
	if li < 0 || li >= len(langs) || !langs[li].set {
		return nil
	}
	return []report.ReportOptionsFunc{report.WithOptionsLanguage(langs[li].tag)}
}

// newReport builds the report of a v3 metrics object.  ok=false when the object
// has no report type (v2) or is nil (report construction over nil metrics is
// outside every claimed property).
func newReport(p any, li int) (any, bool) {
	if isNilObj(p) {
		return nil, false
	}
	switch r := p.(type) {
	case *v3.Base:
		return report.NewBase(r, reportOpts(li)...), true
	case *v3.Temporal:
		if r.BaseMetrics() == nil {
			return nil, false
		}
		return report.NewTemporal(r, reportOpts(li)...), true
	case *v3.Environmental:
		if r.TemporalMetrics() == nil || r.BaseMetrics() == nil {
			return nil, false
		}
		return report.NewEnvironmental(r, reportOpts(li)...), true
	}
	return nil, false
}

func nilReport(level int) any {
	switch level {
	case 0:
		return (*report.BaseReport)(nil)
	case 1:
		return (*report.TemporalReport)(nil)
	default:
		return (*report.EnvironmentalReport)(nil)
	}
}

func reportLevel(rep any) int {
	switch rep.(type) {
	case *report.BaseReport:
		return 0
	case *report.TemporalReport:
		return 1
	case *report.EnvironmentalReport:
		return 2
	}
	return -1
}

type exporter interface {
	ExportWith(io.Reader) (io.Reader, error)
	ExportWithString(string) (io.Reader, error)
}

// reportFields lists the exported string fields reachable at each level, by
// reflection over the report types (so a renamed field needs no harness change).
// Paths are template field chains such as ".Vector" or ".BaseReport.Vector".
func reportFields(level int) (own []string, shadowed []string) {
	var t reflect.Type
	switch level {
	case 0:
		t = reflect.TypeOf(report.BaseReport{})
	case 1:
		t = reflect.TypeOf(report.TemporalReport{})
	default:
		t = reflect.TypeOf(report.EnvironmentalReport{})
	}
	seen := map[string]bool{}
	var walk func(t reflect.Type, prefix string, depth int)
	walk = func(t reflect.Type, prefix string, depth int) {
		var embedded []reflect.StructField
		for i := 0; i < t.NumField(); i++ {
			f := t.Field(i)
			if !f.IsExported() {
				continue
			}
			if f.Anonymous {
				embedded = append(embedded, f)
				continue
			}
			if f.Type.Kind() != reflect.String {
				continue
			}
			if prefix == "" || !seen[f.Name] {
				if !seen[f.Name] {
					own = append(own, "."+f.Name)
					seen[f.Name] = true
				}
			}
			if prefix != "" {
				shadowed = append(shadowed, prefix+"."+f.Name)
			}
		}
		for _, f := range embedded {
			et := f.Type
			if et.Kind() == reflect.Ptr {
				et = et.Elem()
			}
			if et.Kind() == reflect.Struct {
				walk(et, prefix+"."+f.Name, depth+1)
			}
		}
	}
	walk(t, "", 0)
	sort.Strings(own)
	sort.Strings(shadowed)
	return
}

// ---------------------------------------------------------------------------
// Table lookups (Get* and names.*), called through reflection from a fixed list.

type lookupFn struct {
	name string
	fn   any
}

var lookups = []lookupFn{
	{"v3.GetAttackVector", v3.GetAttackVector}, {"v3.GetAttackComplexity", v3.GetAttackComplexity},
	{"v3.GetPrivilegesRequired", v3.GetPrivilegesRequired}, {"v3.GetUserInteraction", v3.GetUserInteraction},
	{"v3.GetScope", v3.GetScope}, {"v3.GetConfidentialityImpact", v3.GetConfidentialityImpact},
	{"v3.GetIntegrityImpact", v3.GetIntegrityImpact}, {"v3.GetAvailabilityImpact", v3.GetAvailabilityImpact},
	{"v3.GetExploitability", v3.GetExploitability}, {"v3.GetRemediationLevel", v3.GetRemediationLevel},
	{"v3.GetReportConfidence", v3.GetReportConfidence},
	{"v3.GetConfidentialityRequirement", v3.GetConfidentialityRequirement},
	{"v3.GetIntegrityRequirement", v3.GetIntegrityRequirement},
	{"v3.GetAvailabilityRequirement", v3.GetAvailabilityRequirement},
	{"v3.GetModifiedAttackVector", v3.GetModifiedAttackVector},
	{"v3.GetModifiedAttackComplexity", v3.GetModifiedAttackComplexity},
	{"v3.GetModifiedPrivilegesRequired", v3.GetModifiedPrivilegesRequired},
	{"v3.GetModifiedUserInteraction", v3.GetModifiedUserInteraction},
	{"v3.GetModifiedScope", v3.GetModifiedScope},
	{"v3.GetModifiedConfidentialityImpact", v3.GetModifiedConfidentialityImpact},
	{"v3.GetModifiedIntegrityImpact", v3.GetModifiedIntegrityImpact},
	{"v3.GetModifiedAvailabilityImpact", v3.GetModifiedAvailabilityImpact},
	{"v3.GetVersion", v3.GetVersion}, {"version.Get", version.Get},
	{"v2.GetAccessVector", v2.GetAccessVector}, {"v2.GetAccessComplexity", v2.GetAccessComplexity},
	{"v2.GetAuthentication", v2.GetAuthentication}, {"v2.GetConfidentialityImpact", v2.GetConfidentialityImpact},
	{"v2.GetIntegrityImpact", v2.GetIntegrityImpact}, {"v2.GetAvailabilityImpact", v2.GetAvailabilityImpact},
	{"v2.GetExploitability", v2.GetExploitability}, {"v2.GetRemediationLevel", v2.GetRemediationLevel},
	{"v2.GetReportConfidence", v2.GetReportConfidence},
	{"v2.GetCollateralDamagePotential", v2.GetCollateralDamagePotential},
	{"v2.GetTargetDistribution", v2.GetTargetDistribution},
	{"v2.GetConfidentialityRequirement", v2.GetConfidentialityRequirement},
	{"v2.GetIntegrityRequirement", v2.GetIntegrityRequirement},
	{"v2.GetAvailabilityRequirement", v2.GetAvailabilityRequirement},
	// names: titles
	{"names.BaseMetrics", names.BaseMetrics}, {"names.BaseMetricsValueOf", names.BaseMetricsValueOf},
	{"names.TemporalMetrics", names.TemporalMetrics}, {"names.TemporalMetricsValueOf", names.TemporalMetricsValueOf},
	{"names.EnvironmentalMetrics", names.EnvironmentalMetrics}, {"names.EnvironmentalMetricsValueOf", names.EnvironmentalMetricsValueOf},
	{"names.AttackVector", names.AttackVector}, {"names.AttackComplexity", names.AttackComplexity},
	{"names.PrivilegesRequired", names.PrivilegesRequired}, {"names.UserInteraction", names.UserInteraction},
	{"names.Scope", names.Scope}, {"names.ConfidentialityImpact", names.ConfidentialityImpact},
	{"names.IntegrityImpact", names.IntegrityImpact}, {"names.AvailabilityImpact", names.AvailabilityImpact},
	{"names.Exploitability", names.Exploitability}, {"names.RemediationLevel", names.RemediationLevel},
	{"names.ReportConfidence", names.ReportConfidence},
	{"names.ConfidentialityRequirement", names.ConfidentialityRequirement},
	{"names.IntegrityRequirement", names.IntegrityRequirement}, {"names.AvailabilityRequirement", names.AvailabilityRequirement},
	{"names.ModifiedAttackVector", names.ModifiedAttackVector}, {"names.ModifiedAttackComplexity", names.ModifiedAttackComplexity},
	{"names.ModifiedPrivilegesRequired", names.ModifiedPrivilegesRequired}, {"names.ModifiedUserInteraction", names.ModifiedUserInteraction},
	{"names.ModifiedScope", names.ModifiedScope}, {"names.ModifiedConfidentialityImpact", names.ModifiedConfidentialityImpact},
	{"names.ModifiedIntegrityImpact", names.ModifiedIntegrityImpact}, {"names.ModifiedAvailabilityImpact", names.ModifiedAvailabilityImpact},
	{"names.Severity", names.Severity},
	// names: values
	{"names.AVValueOf", names.AVValueOf}, {"names.ACValueOf", names.ACValueOf}, {"names.PRValueOf", names.PRValueOf},
	{"names.UIValueOf", names.UIValueOf}, {"names.SValueOf", names.SValueOf}, {"names.CValueOf", names.CValueOf},
	{"names.IValueOf", names.IValueOf}, {"names.AValueOf", names.AValueOf}, {"names.EValueOf", names.EValueOf},
	{"names.RLValueOf", names.RLValueOf}, {"names.RCValueOf", names.RCValueOf}, {"names.CRValueOf", names.CRValueOf},
	{"names.IRValueOf", names.IRValueOf}, {"names.ARValueOf", names.ARValueOf}, {"names.MAVValueOf", names.MAVValueOf},
	{"names.MACValueOf", names.MACValueOf}, {"names.MPRValueOf", names.MPRValueOf}, {"names.MUIValueOf", names.MUIValueOf},
	{"names.MSValueOf", names.MSValueOf}, {"names.MCValueOf", names.MCValueOf}, {"names.MIValueOf", names.MIValueOf},
	{"names.MAValueOf", names.MAValueOf}, {"names.SeverityValueOf", names.SeverityValueOf},
}

var tagType = reflect.TypeOf(language.Tag{})

// enumMethods: every exported method of every metric value type (the result
// types of the Get* functions), callable with small integer arguments:
// String, Value, IsValid, IsUnknown, IsDefined, IsChanged, ...  They are appended
// to the lookup table so that histories and concurrent tasks exercise them too,
// with in-range and out-of-range receiver values.
type enumMethod struct {
	name string
	typ  reflect.Type
	meth int
}

var enumMethods = func() []enumMethod {
	var out []enumMethod
	seen := map[reflect.Type]bool{}
	for _, l := range lookups {
		ft := reflect.TypeOf(l.fn)
		if ft.NumIn() != 1 || ft.In(0).Kind() != reflect.String || ft.NumOut() < 1 {
			continue
		}
		t := ft.Out(0)
		if t.Kind() != reflect.Int || seen[t] {
			continue
		}
		seen[t] = true
		for m := 0; m < t.NumMethod(); m++ {
			mt := t.Method(m).Type
			ok := true
			for a := 1; a < mt.NumIn(); a++ {
				if mt.In(a).Kind() != reflect.Int {
					ok = false
				}
			}
			if ok {
				out = append(out, enumMethod{name: t.String() + "." + t.Method(m).Name, typ: t, meth: m})
			}
		}
	}
	return out
}()

// nLookups is the size of the combined table (functions, then enum methods).
func nLookups() int { return len(lookups) + len(enumMethods) }

func doEnumMethod(e enumMethod, iarg int) string {
	recv := reflect.ValueOf(iarg % 9).Convert(e.typ) // 0..8: in range and beyond
	m := recv.Method(e.meth)
	mt := m.Type()
	args := make([]reflect.Value, mt.NumIn())
	for a := range args {
		args[a] = reflect.ValueOf((iarg/9 + a*3) % 7).Convert(mt.In(a))
	}
	var sb strings.Builder
	sb.WriteString(e.name)
	sb.WriteString(fmt.Sprintf("(%d)=", iarg%9))
	for _, o := range m.Call(args) {
		sb.WriteString(renderValue(o))
		sb.WriteByte(',')
	}
	return sb.String()
}

// doLookup calls lookups[i] with arguments built from (sarg, iarg, lang index)
// according to its signature and renders all results canonically.
func doLookup(i int, sarg string, iarg int, li int) string {
	i = i % nLookups()
	if i >= len(lookups) {
		return doEnumMethod(enumMethods[i-len(lookups)], iarg)
	}
	l := lookups[i%len(lookups)]
	fv := reflect.ValueOf(l.fn)
	ft := fv.Type()
	args := make([]reflect.Value, ft.NumIn())
	for a := 0; a < ft.NumIn(); a++ {
		at := ft.In(a)
		switch {
		case at == tagType:
			args[a] = reflect.ValueOf(langs[li%len(langs)].tag)
		case at.Kind() == reflect.String:
			args[a] = reflect.ValueOf(sarg).Convert(at)
		case at.Kind() == reflect.Int:
			args[a] = reflect.ValueOf(iarg).Convert(at)
		default:
			return l.name + "=unsupported-arg"
		}
	}
	outs := fv.Call(args)
	var sb strings.Builder
	sb.WriteString(l.name)
	sb.WriteByte('=')
	for _, o := range outs {
		sb.WriteString(renderValue(o))
		sb.WriteByte(',')
	}
	return sb.String()
}

var errorType = reflect.TypeOf((*error)(nil)).Elem()

func renderValue(o reflect.Value) string {
	if o.Type().Implements(errorType) {
		if o.IsNil() {
			return "nil"
		}
		return errClass(o.Interface().(error))
	}
	switch o.Kind() {
	case reflect.Int:
		s := strconv.FormatInt(o.Int(), 10)
		if st, ok := o.Interface().(fmt.Stringer); ok {
			s += ":" + strconv.Quote(st.String())
		}
		return s
	case reflect.String:
		return strconv.Quote(o.String())
	case reflect.Float64:
		return fbits(o.Float())
	case reflect.Bool:
		return strconv.FormatBool(o.Bool())
	}
	return "<" + o.Kind().String() + ">"
}

// hashString: FNV-1a 64.
func hashString(s string) uint64 {
	h := uint64(14695981039346656037)
	for i := 0; i < len(s); i++ {
		h ^= uint64(s[i])
		h *= 1099511628211
	}
	return h
}
