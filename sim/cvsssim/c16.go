package main

// c16.go: concurrent use is data-race free and equals sequential use.

import (
	"fmt"

	"simrt"
)

func genC16(d *RunDesc, tier string) {
	wl := newRng(simrt.Mix(d.Seed, 1))
	sc := newRng(simrt.Mix(d.Seed, 2))
	fl := newRng(simrt.Mix(d.Seed, 4))
	d.MapSeed = simrt.Mix(d.Seed, 3)
	switch wl.intn(6) {
	case 0:
		d.MapPolicy = simrt.MapCanonical
	case 1:
		d.MapPolicy = simrt.MapReversed
	default:
		d.MapPolicy = simrt.MapPermuted
	}

	// Export storm (one run in 25): one caller feeds a long template through a
	// reader that delivers a byte at a time, the others push 25-40 small reader
	// exports each; PCT with the slow caller first, so that one of its change
	// points parks it inside its read loop while everybody else runs to
	// completion.  Bounded resources handed out in rotation (buffer rings,
	// limiters, free lists) go wrong only when more callers pass through than
	// there are slots while one holder is still busy.
	if stm := newRng(simrt.Mix(d.Seed, 6)); stm.chance(1, 25) {
		genStorm(d, stm)
		return
	}

	// sharing pattern
	pattern := wl.intn(4) // 0 all private (no shared world at all: cold start), 1 one hot shared object, 2/3 mixed
	// shared world
	nObj := wl.between(1, 6)
	if pattern == 0 {
		nObj = 0
	}
	for i := 0; i < nObj; i++ {
		k := wl.intn(NKinds)
		v, _ := genValidVector(wl, k)
		d.World = append(d.World, ObjSpec{Kind: k, NilRecv: wl.chance(1, 2), Vec: v})
	}
	// always at least one v3 object of some level so that reports exist
	if pattern != 0 {
		k := wl.intn(3)
		v, _ := genValidVector(wl, k)
		d.World = append(d.World, ObjSpec{Kind: k, Vec: v})
	}
	// now and then the owner assigns a field or two after decoding, before sharing
	for i := range d.World {
		if wl.chance(1, 4) {
			for n := wl.between(1, 2); n > 0; n-- {
				donor := ""
				if wl.chance(4, 5) {
					donor, _ = genValidVector(wl, d.World[i].Kind)
				}
				d.World[i].Sets = append(d.World[i].Sets, WorldSet{Field: wl.intn(64), DonorVec: donor})
			}
		}
	}
	for i, o := range d.World {
		if !kindIsV2(o.Kind) && wl.chance(2, 3) {
			d.WorldReps = append(d.WorldReps, RepSpec{Obj: i, Lang: wl.intn(len(langs))})
		}
	}
	if len(d.WorldReps) == 0 && pattern != 0 {
		d.WorldReps = append(d.WorldReps, RepSpec{Obj: len(d.World) - 1, Lang: wl.intn(len(langs))})
	}
	hot, hotRep := 0, 0
	if pattern != 0 {
		hot = wl.intn(len(d.World))
		hotRep = wl.intn(len(d.WorldReps))
	}

	nTasks := wl.between(2, 8)
	maxOps := 12
	if tier == "thorough" {
		maxOps = 20
	}
	if sc.chance(1, 12) {
		// a small workload whose single pre-emptions are enumerated completely
		d.Sched.Sweep = true
		nTasks = wl.between(2, 3)
		maxOps = 3
	}
	// a small template pool so that the same template is exported concurrently
	var tmplPool []string
	var tmplLevels []int
	for i := 0; i < 4; i++ {
		lvl := wl.intn(3)
		// mostly programs that text/template accepts: concurrency bugs in the
		// export path need exports that get as far as executing
		t, class, _ := genTemplate(wl, lvl)
		for tries := 0; class != "valid" && tries < 4 && i < 3; tries++ {
			t, class, _ = genTemplate(wl, lvl)
		}
		if wl.chance(1, 6) && !d.Sched.Sweep {
			// a large template now and then (not in sweep runs, whose cost is
			// executions x size), at most 8 KiB here: readers may deliver it bytewise
			if p := padTemplate(wl, t); len(p) <= 8200 {
				t = p
			}
		}
		tmplPool = append(tmplPool, t)
		tmplLevels = append(tmplLevels, lvl)
	}
	weights := [5]int{wl.between(1, 6), wl.between(1, 6), wl.between(1, 4), wl.between(1, 5), wl.between(0, 3)} // dec obs rep exp lkp
	if wl.chance(1, 3) || d.Sched.Sweep {
		// swarm: a run dominated by one kind of operation
		weights[wl.intn(5)] = 24
	}
	wsum := 0
	for _, w := range weights {
		wsum += w
	}
	for t := 0; t < nTasks; t++ {
		var ops []Op
		n := wl.between(2, maxOps)
		nextSlot := 1
		var localObjs []int  // slots with decoded objects
		var localKinds []int // their kinds
		var localReps []int
		if pattern == 0 {
			// private objects only: start from an own v3 object and its report
			k := wl.intn(3)
			v, _ := genValidVector(wl, k)
			ops = append(ops, Op{K: "dec", Kind: k, NilRecv: wl.chance(1, 2), Vec: v, Dst: nextSlot, Class: "valid"})
			ops = append(ops, Op{K: "rep", Obj: &Ref{I: nextSlot}, Lang: wl.intn(len(langs)), Dst: nextSlot + 1})
			localObjs = append(localObjs, nextSlot)
			localKinds = append(localKinds, k)
			localReps = append(localReps, nextSlot+1)
			nextSlot += 2
		}
		for i := 0; i < n; i++ {
			c := wl.intn(wsum)
			kind := 0
			for kind = 0; kind < 5; kind++ {
				if c < weights[kind] {
					break
				}
				c -= weights[kind]
			}
			useShared := pattern != 0 && (pattern == 1 || wl.chance(1, 2))
			switch kind {
			case 0: // decode into an own object
				k := wl.intn(NKinds)
				v, class, _ := genVector(wl, k, false)
				ops = append(ops, Op{K: "dec", Kind: k, NilRecv: wl.chance(1, 2), Vec: v, Dst: nextSlot, Class: class})
				localObjs = append(localObjs, nextSlot)
				localKinds = append(localKinds, k)
				nextSlot++
			case 1: // query
				obs := "all"
				if wl.chance(1, 2) {
					obs = pick(wl, observerNames)
				}
				if useShared || len(localObjs) == 0 {
					i := wl.intn(len(d.World))
					if pattern == 1 {
						i = hot
					}
					ops = append(ops, Op{K: "obs", Obj: &Ref{Shared: true, I: i}, Obs: obs})
				} else {
					j := wl.intn(len(localObjs))
					ops = append(ops, Op{K: "obs", Obj: &Ref{I: localObjs[j]}, Obs: obs, LB: wl.chance(1, 5)})
				}
			case 2: // build a report
				if useShared || len(localObjs) == 0 {
					i := wl.intn(len(d.World))
					if pattern == 1 {
						i = hot
					}
					ops = append(ops, Op{K: "rep", Obj: &Ref{Shared: true, I: i}, Lang: wl.intn(len(langs)), Dst: nextSlot})
				} else {
					j := wl.intn(len(localObjs))
					ops = append(ops, Op{K: "rep", Obj: &Ref{I: localObjs[j]}, Lang: wl.intn(len(langs)), Dst: nextSlot})
				}
				localReps = append(localReps, nextSlot)
				nextSlot++
			case 3: // export
				var rep Ref
				if useShared || len(localReps) == 0 {
					i := wl.intn(len(d.WorldReps))
					if pattern == 1 {
						i = hotRep
					}
					rep = Ref{Shared: true, I: i}
				} else {
					rep = Ref{I: pick(wl, localReps)}
				}
				var tmpl string
				if wl.chance(2, 3) {
					tmpl = pick(wl, tmplPool)
				} else {
					tmpl, _, _ = genTemplate(wl, wl.intn(3))
				}
				op := Op{K: "exp", Rep: &rep, Tmpl: tmpl, Via: "str"}
				if wl.chance(1, 2) {
					op.Via = "rd"
					f := genFault(fl, len(tmpl), wl.chance(1, 3))
					op.Fault = &f
				}
				ops = append(ops, op)
			default:
				fn := wl.intn(nLookups())
				ops = append(ops, Op{K: "lkp", Fn: fn, SArg: pick(wl, lookupArgs), IArg: wl.intn(63), Lang: wl.intn(len(langs))})
			}
		}
		d.Tasks = append(d.Tasks, ops)
	}

	// Sibling burst (one run in three that has a shared world): two reports of the
	// same shared object that differ in nothing but the language, and every task
	// exports one of them with the same template at a position of its own.  Callers
	// that ask for almost the same thing at the same moment are what request
	// collapsing (single-flight), per-key locks and memo tables keyed too coarsely
	// get wrong.  Own PRNG stream: the rest of the workload is what it was.
	sb := newRng(simrt.Mix(d.Seed, 5))
	if pattern != 0 && sb.chance(1, 3) {
		var v3 []int
		for i, o := range d.World {
			if !kindIsV2(o.Kind) {
				v3 = append(v3, i)
			}
		}
		if len(v3) > 0 {
			o := v3[sb.intn(len(v3))]
			la, lb := 2, 1 // ja, en: the two languages with tables of their own
			if sb.chance(1, 4) {
				la, lb = sb.intn(len(langs)), sb.intn(len(langs))
			}
			first := len(d.WorldReps)
			d.WorldReps = append(d.WorldReps, RepSpec{Obj: o, Lang: la}, RepSpec{Obj: o, Lang: lb})
			tmpl := ""
			for i := range tmplPool {
				if tmplLevels[i] <= d.World[o].Kind && len(tmplPool[i]) < 2048 {
					tmpl = tmplPool[i]
					break
				}
			}
			if tmpl == "" {
				class := ""
				for tries := 0; class != "valid" && tries < 5; tries++ {
					tmpl, class, _ = genTemplate(sb, sb.intn(d.World[o].Kind+1))
				}
			}
			for t := range d.Tasks {
				op := Op{K: "exp", Rep: &Ref{Shared: true, I: first + (t+sb.intn(2))%2}, Tmpl: tmpl, Via: "str"}
				at := sb.intn(len(d.Tasks[t]) + 1)
				ops := append([]Op{}, d.Tasks[t][:at]...)
				ops = append(ops, op)
				d.Tasks[t] = append(ops, d.Tasks[t][at:]...)
			}
			d.Burst = true
		}
	}

	// schedule
	prio := make([]int, nTasks)
	for i := range prio {
		prio[i] = i
	}
	shuffle(sc, prio)
	d.Sched.Prio = prio
	d.Sched.Seed = sc.u64()
	switch sc.intn(13) {
	case 10, 11, 12:
		// pre-empt mostly where it matters: at statements that touch shared state
		d.Sched.Policy = simrt.PolicyBernoulli
		d.Sched.P = []float64{0.002, 0.01, 0.05}[sc.intn(3)]
		d.Sched.HotP = []float64{0.3, 0.6, 1}[sc.intn(3)]
	case 0:
		d.Sched.Policy = simrt.PolicyNone
	case 1, 2:
		d.Sched.Policy = simrt.PolicyBernoulli
		d.Sched.P = 0.01
	case 3, 4:
		d.Sched.Policy = simrt.PolicyBernoulli
		d.Sched.P = 0.1
	case 5:
		d.Sched.Policy = simrt.PolicyBernoulli
		d.Sched.P = 0.5
	case 6:
		d.Sched.Policy = simrt.PolicyBernoulli
		d.Sched.P = 1
	case 7, 8:
		d.Sched.Policy = simrt.PolicyPCT
		d.Sched.PCTDepth = sc.between(1, 3)
	default:
		d.Sched.Policy = simrt.PolicyBernoulli
		d.Sched.P = 0.5
		d.Sched.OnlyIO = true
	}
}

func genStorm(d *RunDesc, r *rng) {
	d.Storm = true
	k := r.intn(3)
	v, _ := genValidVector(r, k)
	d.World = []ObjSpec{{Kind: k, Vec: v}}
	d.WorldReps = []RepSpec{{Obj: 0, Lang: r.intn(len(langs))}, {Obj: 0, Lang: r.intn(len(langs))}}
	valid := func(lvl int) string {
		t, class := "", ""
		for tries := 0; class != "valid" && tries < 6; tries++ {
			t, class, _ = genTemplate(r, lvl)
		}
		return t
	}
	long := valid(r.intn(k + 1))
	if p := padTemplate(r, long); len(p) <= 4200 {
		long = p
	}
	slow := Fault{ErrAt: -1, Chunks: []int{1}}
	d.Tasks = append(d.Tasks, []Op{{K: "exp", Rep: &Ref{Shared: true, I: 0}, Tmpl: long, Via: "rd", Fault: &slow}})
	nT := r.between(2, 3)
	for t := 0; t < nT; t++ {
		var ops []Op
		small := []string{valid(r.intn(k + 1)), valid(r.intn(k + 1)), "{{.Vector}}"}
		for n := r.between(25, 40); n > 0; n-- {
			f := Fault{ErrAt: -1}
			if r.chance(1, 3) {
				f.Chunks = []int{r.between(1, 64)}
			}
			ops = append(ops, Op{K: "exp", Rep: &Ref{Shared: true, I: r.intn(2)}, Tmpl: pick(r, small), Via: "rd", Fault: &f})
		}
		d.Tasks = append(d.Tasks, ops)
	}
	prio := make([]int, nT+1)
	for i := range prio {
		prio[i] = i
	}
	d.Sched.Prio = prio
	d.Sched.Seed = r.u64()
	d.Sched.Policy = simrt.PolicyPCT
	d.Sched.PCTDepth = r.between(1, 3)
	if r.chance(1, 4) {
		d.Sched.Policy = simrt.PolicyBernoulli
		d.Sched.P = 0.5
		d.Sched.OnlyIO = true
	}
}

func buildWorld(d *RunDesc) *world {
	w := &world{}
	for _, o := range d.World {
		so := doDecode(o.Kind, o.NilRecv, o.Vec)
		// assignments by the owner before the object is shared
		for _, ws := range o.Sets {
			cur := so.current()
			if isNilObj(cur) {
				break
			}
			fs := fieldsOf(cur)
			if len(fs) == 0 {
				break
			}
			f := fs[ws.Field%len(fs)]
			var val int64
			have := false
			if ws.DonorVec != "" {
				if dn := doDecode(o.Kind, false, ws.DonorVec); dn.err == nil && !isNilObj(dn.res) {
					if dv, ok := fieldValue(dn.res, f); ok {
						val, have = dv.Int(), true
					}
				}
			}
			if !have {
				if inv, ok := invalidValueOf(f.typ); ok {
					val, have = inv.Int(), true
				}
			}
			if have {
				func() {
					defer func() { _ = recover() }()
					so.applyStep(stateStep{field: f, val: val})
				}()
			}
		}
		w.objs = append(w.objs, so)
	}
	for _, r := range d.WorldReps {
		var sr *slotRep
		if r.Obj >= 0 && r.Obj < len(w.objs) {
			s := w.objs[r.Obj]
			if s.err == nil {
				if rep, ok := newReport(s.res, r.Lang); ok {
					sr = &slotRep{rep: rep, origin: s.origin + "|result|lang=" + langs[r.Lang%len(langs)].name, level: reportLevel(rep)}
				}
			}
		}
		w.reps = append(w.reps, sr)
	}
	return w
}

func worldSnapshot(w *world) []string {
	var out []string
	for _, o := range w.objs {
		out = append(out, snapshot(o.res)+"/"+snapshot(o.recv))
	}
	for _, r := range w.reps {
		if r == nil {
			out = append(out, "<none>")
		} else {
			out = append(out, snapshot(r.rep))
		}
	}
	return out
}

func runC16(d *RunDesc, res *RunResult) {
	cfg := d.simConfig()
	nT := len(d.Tasks)
	res.Stats.Tasks = nT
	res.Stats.Policy = d.Sched.Policy
	if d.Burst {
		res.Stats.count("sibling-bursts")
	}
	if d.Storm {
		res.Stats.count("export-storms")
	}

	mk := func(w *world, results [][]string, ctxs []*taskCtx) []func() {
		tasks := make([]func(), nT)
		for t := 0; t < nT; t++ {
			t := t
			ops := d.Tasks[t]
			results[t] = make([]string, len(ops))
			ctxs[t] = newTaskCtx(w)
			out := results[t]
			ctx := ctxs[t]
			tasks[t] = func() {
				for i := range ops {
					// pointer values printed by templates ({{.}} over a report with an
					// embedded report) are process-specific: masked before comparing
					r := maskAddrs(ctx.execOp(&ops[i]))
					out[i] = r
					simrt.Note(hashString(r))
				}
			}
		}
		return tasks
	}

	races0 := raceErrors()

	// PCT change points need an estimate of the run length: a pure function of
	// the description (ops x a constant), not of an earlier execution, so that the
	// concurrent phase can run first on untouched objects.
	if d.Sched.Policy == simrt.PolicyPCT && len(d.Sched.PCTPoints) == 0 && d.Sched.PCTDepth > 0 {
		pr := newRng(simrt.Mix(d.Sched.Seed, 77))
		n := uint64(d.nOps())*120 + 2
		for i := 0; i < d.Sched.PCTDepth; i++ {
			cfg.PCTPoints = append(cfg.PCTPoints, 1+pr.u64()%(n-1))
		}
		for i := range cfg.PCTPoints {
			for j := i + 1; j < len(cfg.PCTPoints); j++ {
				if cfg.PCTPoints[j] < cfg.PCTPoints[i] {
					cfg.PCTPoints[i], cfg.PCTPoints[j] = cfg.PCTPoints[j], cfg.PCTPoints[i]
				}
			}
		}
		d.Sched.PCTPoints = cfg.PCTPoints
	}
	cfg.KeepSwitch = 200000

	// Concurrent phase FIRST, on a freshly built world: lazily initialised state
	// (a memoised score, a table built on first use) must meet its first uses
	// concurrently; a reference pass beforehand would warm it up and hide the race.
	w := buildWorld(d)
	before := worldSnapshot(w)
	conRes := make([][]string, nT)
	conCtx := make([]*taskCtx, nT)
	cr := simrt.Run(cfg, mk(w, conRes, conCtx))

	// Sequential reference afterwards: same tasks, one after the other, on this
	// goroutine, over a second world built from the same specification.
	w2 := buildWorld(d)
	seqRes := make([][]string, nT)
	seqCtx := make([]*taskCtx, nT)
	seqCfg := cfg
	seqCfg.Policy = simrt.PolicyNone
	seqCfg.Explicit = nil
	sr := simrt.RunSeq(seqCfg, mk(w2, seqRes, seqCtx))
	res.Stats.SeqYields = sr.Yields

	res.FP = simrt.Mix(sr.FP, cr.FP)
	res.Stats.Yields = cr.Yields
	res.Stats.Switches = cr.NSwitches
	res.Stats.Preemptions = cr.Preemptions
	if cr.BlockedSw > 0 {
		if res.Stats.Counters == nil {
			res.Stats.Counters = map[string]int{}
		}
		res.Stats.Counters["blocked-switches"] += int(cr.BlockedSw)
	}
	res.Stats.MapRanges = cr.MapRanges
	res.Switches = cr.Switches
	for _, c := range conCtx {
		res.Stats.Fault.add(&c.fst)
		res.Stats.DecodeOK += c.nOK
		res.Stats.DecodeFail += c.nFail
		res.Stats.Exports += c.nExp
		res.Stats.ExportErr += c.nExpE
	}
	res.Stats.Ops = d.nOps()
	// distinct (pre-empted site, next task resumed) pairs
	seenPair := map[uint64]bool{}
	for i, s := range cr.Switches {
		if s.End {
			continue
		}
		var nextSite uint32
		// the site at which the resumed task had been pre-empted earlier (0 = task start)
		for j := i - 1; j >= 0; j-- {
			if cr.Switches[j].Task == s.Next && !cr.Switches[j].End {
				nextSite = cr.Switches[j].Site
				break
			}
		}
		h := uint64(s.Site)<<32 | uint64(nextSite)
		if !seenPair[h] {
			seenPair[h] = true
			res.Stats.SwitchPairs = append(res.Stats.SwitchPairs, h)
		}
	}

	if cr.Deadlock {
		res.addViolation("deadlock", "every unfinished task is blocked", -1, -1)
	}
	if cr.Budget {
		res.Stats.count("yield-budget-exceeded") // informational; a real endless loop ends in the watchdog
	}
	// oracle 2: equals sequential
	for t := 0; t < nT; t++ {
		for i := range d.Tasks[t] {
			// A panic that happens identically in the sequential reference is not a
			// concurrency matter (C12's subject); only differences count here.
			if conRes[t][i] != seqRes[t][i] {
				res.addViolation("mismatch-seq:"+d.Tasks[t][i].K,
					fmt.Sprintf("task %d op %d (%s): sequential=%s concurrent=%s", t, i, d.Tasks[t][i].K, clip(seqRes[t][i], 600), clip(conRes[t][i], 600)), t, i)
			}
		}
	}
	// oracle 3: shared objects untouched
	after := worldSnapshot(w)
	for i := range before {
		if before[i] != after[i] {
			res.addViolation("mutated-shared", fmt.Sprintf("shared #%d before=%s after=%s", i, clip(before[i], 500), clip(after[i], 500)), -1, -1)
		}
	}
	// oracle 1: race freedom
	if n := raceErrors() - races0; n > 0 {
		res.Stats.RaceReports = n
		res.addViolation("race", fmt.Sprintf("%d race report(s) by the Go race detector during this run", n), -1, -1)
	}
	if cr.Preemptions > 0 {
		res.Stats.CaseKeys = append(res.Stats.CaseKeys, cr.FP)
	}
	// Single-pre-emption sweep: for this (small) workload, every schedule in which
	// one task is pre-empted once, at one of its hot yields, while all the others run
	// to completion in between - enumerated completely, each on a fresh world.
	if d.Sched.Sweep && len(res.Violations) == 0 && res.Trouble == "" {
		const capPerTask = 200
		execs := 0
	sweep:
		for t := 0; t < nT && t < 3; t++ {
			n := uint64(0)
			if t < len(cr.HotYields) {
				n = cr.HotYields[t]
			}
			if n > capPerTask {
				n = capPerTask
				res.Stats.count("sweep-capped")
			}
			prio := []int{t}
			for _, o := range d.Sched.Prio {
				if o != t {
					prio = append(prio, o)
				}
			}
			for k := uint64(0); k < n; k++ {
				if res.Stats.Yields > 3_000_000 {
					// cost guard: the enumeration is cut short for this workload
					res.Stats.count("sweep-cut-short")
					break sweep
				}
				cfgS := cfg
				cfgS.Policy, cfgS.SweepTask, cfgS.SweepK, cfgS.Prio, cfgS.Explicit = simrt.PolicySweep, t, k, prio, nil
				wS := buildWorld(d)
				beforeS := worldSnapshot(wS)
				resS := make([][]string, nT)
				ctxS := make([]*taskCtx, nT)
				r0 := raceErrors()
				crS := simrt.Run(cfgS, mk(wS, resS, ctxS))
				execs++
				res.FP = simrt.Mix(res.FP, crS.FP)
				res.Stats.Yields += crS.Yields
				res.Stats.Switches += crS.NSwitches
				res.Stats.Preemptions += crS.Preemptions
				if crS.Preemptions > 0 {
					res.Stats.CaseKeys = append(res.Stats.CaseKeys, crS.FP)
				}
				bad := false
				if crS.Deadlock {
					res.addViolation("deadlock", "every unfinished task is blocked", -1, -1)
					bad = true
				}
				for tt := 0; tt < nT && !bad; tt++ {
					for i := range d.Tasks[tt] {
						if resS[tt][i] != seqRes[tt][i] {
							res.addViolation("mismatch-seq:"+d.Tasks[tt][i].K,
								fmt.Sprintf("single pre-emption of task %d at its hot yield #%d: task %d op %d (%s): sequential=%s concurrent=%s", t, k, tt, i, d.Tasks[tt][i].K, clip(seqRes[tt][i], 600), clip(resS[tt][i], 600)), tt, i)
							bad = true
							break
						}
					}
				}
				afterS := worldSnapshot(wS)
				for i := range beforeS {
					if beforeS[i] != afterS[i] {
						res.addViolation("mutated-shared", fmt.Sprintf("shared #%d before=%s after=%s", i, clip(beforeS[i], 500), clip(afterS[i], 500)), -1, -1)
						bad = true
					}
				}
				if nr := raceErrors() - r0; nr > 0 {
					res.Stats.RaceReports += nr
					res.addViolation("race", fmt.Sprintf("%d race report(s) by the Go race detector during this run", nr), -1, -1)
					bad = true
				}
				if bad {
					// the replay is this one schedule
					res.Switches = crS.Switches
					d.Sched.Prio = prio
					break sweep
				}
			}
		}
		if res.Stats.Counters == nil {
			res.Stats.Counters = map[string]int{}
		}
		res.Stats.Counters["sweep-runs"]++
		res.Stats.Counters["sweep-executions"] += execs
	}
	if res.Stats.Sample == "" {
		res.Stats.Sample = fmt.Sprintf("tasks=%d ops=%d policy=%d p=%v switches=%d preemptions=%d yields=%d first-op=%v", nT, res.Stats.Ops, d.Sched.Policy, d.Sched.P, cr.NSwitches, cr.Preemptions, cr.Yields, d.Tasks[0][0])
	}
}
