package main

// gen_tmpl.go: a small grammar over text/template programs for reports.

import (
	"fmt"
	"strconv"
	"strings"
)

type tmplGen struct {
	r        *rng
	level    int
	own      []string // ".Field" visible at this level
	shadowed []string // ".BaseReport.Field" etc.
	depth    int
	defs     []string // generator-owned template names already defined
	defText  strings.Builder
	nextDef  int
	nextVar  int
	class    map[string]int
}

var textBits = []string{
	"", " ", "\n", "hello ", "| ", "score: ", "<b>", "</b>", "&amp;", "{ ", " }", "} }", "{ {", "日本語 ", "é", "\t", "- ", "\"", "'", "`", "%s", "\\n", "{{\"{{\"}}", "\r\n", "line\r\n", "\xff", "\ufeff", "\x00", "tab\tsep", "  ", "\n\n",
}

func (g *tmplGen) field() string {
	if len(g.shadowed) > 0 && g.r.chance(1, 4) {
		return pick(g.r, g.shadowed)
	}
	return pick(g.r, g.own)
}

func (g *tmplGen) use(c string) { g.class[c]++ }

// valueExpr returns a pipeline (without delimiters) that yields a printable value.
func (g *tmplGen) valueExpr() string {
	f := g.field()
	switch g.r.intn(16) {
	case 0, 1, 2, 3:
		g.use("field")
		return f
	case 4:
		g.use("printf")
		return fmt.Sprintf("printf %q %s %s", pick(g.r, []string{"%s=%q", "%v/%v", "%10s|%-8s", "%x %d", "%s%%%s"}), f, g.field())
	case 5:
		g.use("len")
		return "len " + f
	case 6:
		g.use("index")
		return fmt.Sprintf("index %s %d", f, g.r.intn(3))
	case 7:
		g.use("slice")
		return fmt.Sprintf("slice %s %d %d", f, 0, g.r.intn(3))
	case 8:
		g.use("escape")
		return pick(g.r, []string{"html", "js", "urlquery", "print", "println"}) + " " + f
	case 9:
		g.use("pipe")
		return f + " | " + pick(g.r, []string{"html", "js", "urlquery", "len", "printf \"%q\"", "printf \"%s|%s\" \"x\""})
	case 10:
		g.use("cmp")
		return fmt.Sprintf("%s %s %s", pick(g.r, []string{"eq", "ne", "lt", "le", "gt", "ge"}), f, pick(g.r, []string{g.field(), strconv.Quote("High"), strconv.Quote("")}))
	case 11:
		g.use("bool")
		return fmt.Sprintf("%s %s %s", pick(g.r, []string{"and", "or"}), f, g.field())
	case 12:
		g.use("not")
		return "not " + f
	case 13:
		g.use("paren")
		return fmt.Sprintf("printf \"%%v-%%v\" (len %s) (%s | len)", f, g.field())
	case 14:
		g.use("literal")
		return pick(g.r, []string{"\"lit\"", "42", "3.5", "true", "nil | printf \"%v\"", "'x'", "`raw`"})
	default:
		g.use("method")
		return fmt.Sprintf(".ExportWithString %q", pick(g.r, []string{"x", "in:{{.Version}}", "{{", ""}))
	}
}

func (g *tmplGen) action(inner string) string {
	l, rr := "{{", "}}"
	if g.r.chance(1, 8) {
		l = "{{- "
		g.use("trim")
	}
	if g.r.chance(1, 8) {
		rr = " -}}"
		g.use("trim")
	}
	return l + inner + rr
}

func (g *tmplGen) node() string {
	g.depth++
	defer func() { g.depth-- }()
	deep := g.depth > 3
	c := g.r.intn(20)
	if deep && c >= 8 {
		c = g.r.intn(8)
	}
	switch c {
	case 0, 1, 2:
		g.use("text")
		return pick(g.r, textBits)
	case 3, 4, 5, 6, 7:
		return g.action(g.valueExpr())
	case 8, 9:
		g.use("if")
		s := g.action("if "+g.valueExpr()) + g.seq(2)
		if g.r.chance(1, 2) {
			if g.r.chance(1, 3) {
				s += g.action("else if "+g.valueExpr()) + g.seq(1)
			}
			s += g.action("else") + g.seq(2)
		}
		return s + g.action("end")
	case 10:
		g.use("with")
		s := g.action("with "+g.valueExpr()) + pick(g.r, []string{"{{.}}", "{{. | printf \"%q\"}}", "w"})
		if g.r.chance(1, 3) {
			s += "{{else}}none"
		}
		return s + "{{end}}"
	case 11:
		g.use("range")
		f := g.field()
		v := pick(g.r, []string{"$i, $c := ", "$c := ", ""})
		body := pick(g.r, []string{"{{.}}", "x", "{{printf \"%c\" .}}", "{{break}}", "{{continue}}y"})
		if strings.Contains(v, "$i") {
			body = pick(g.r, []string{"{{$i}}:{{$c}} ", "{{$i}}", "{{if $i}},{{end}}{{$c}}"})
		}
		src := pick(g.r, []string{f, "slice " + f + " 0 1", "(len " + f + ")", "3"})
		s := "{{range " + v + src + "}}" + body
		if g.r.chance(1, 3) {
			s += "{{else}}empty"
		}
		return s + "{{end}}"
	case 12:
		g.use("var")
		g.nextVar++
		n := fmt.Sprintf("$v%d", g.nextVar)
		return "{{" + n + " := " + g.valueExpr() + "}}" + g.seq(1) + "{{" + n + "}}" + func() string {
			if g.r.chance(1, 3) {
				return "{{" + n + " = " + g.field() + "}}{{" + n + "}}"
			}
			return ""
		}()
	case 13:
		g.use("comment")
		return pick(g.r, []string{"{{/* a comment */}}", "{{- /* trimmed */ -}}", "{{/* {{nested}} */}}"})
	case 14, 15:
		g.use("define")
		g.nextDef++
		name := fmt.Sprintf("T%d", g.nextDef)
		// bodies of definitions never invoke templates: no recursion by construction
		save := g.depth
		g.depth = 3
		body := g.seq(3)
		g.depth = save
		g.defText.WriteString("{{define \"" + name + "\"}}" + body + "{{end}}")
		g.defs = append(g.defs, name)
		return "{{template \"" + name + "\" " + pick(g.r, []string{".", g.field(), ""}) + "}}"
	case 16:
		g.use("block")
		g.nextDef++
		name := fmt.Sprintf("B%d", g.nextDef)
		return "{{block \"" + name + "\" .}}" + pick(g.r, []string{"blk", "{{.Vector}}", ""}) + "{{end}}"
	case 17:
		if len(g.defs) > 0 {
			g.use("template-reuse")
			return "{{template \"" + pick(g.r, g.defs) + "\" .}}"
		}
		return g.action(g.valueExpr())
	case 18:
		g.use("embedded-report")
		if g.level >= 1 {
			return pick(g.r, []string{"{{.BaseReport}}", "{{with .BaseReport}}{{.Vector}}{{end}}", "{{.BaseReport.Vector}}"})
		}
		return "{{.}}"
	default:
		g.use("text")
		return pick(g.r, textBits)
	}
}

func (g *tmplGen) seq(max int) string {
	n := g.r.between(1, max)
	var sb strings.Builder
	for i := 0; i < n; i++ {
		sb.WriteString(g.node())
	}
	return sb.String()
}

var brokenBits = []string{
	"{{.Nope}}", "{{.BaseReport.Nope}}", "{{nope .Vector}}", "{{printf}}", "{{index .Vector 100000}}", "{{if .Vector}}open",
	"{{.Vector", "{{template \"ZZ\" .}}", "{{end}}", "{{else}}", "{{range .Vector}}", "{{with}}{{end}}", "{{.Vector.Nope}}",
	"{{slice .Vector 5 1}}", "{{len 3}}", "{{$u}}", "{{call .Vector}}", "{{.Vector | nope}}", "{{define \"D\"}}x", "{{/* open",
	"{{eq .Vector 1}}", "{{index .Vector \"a\"}}", "{{.ExportWithString}}", "{{.ExportWith nil}}", "{{printf \"%d\" .Vector .}}{{.Nope}}",
	"{{template \"ZZ\"}}", "{{lt .Vector 3}}", "{{}}", "{{.}}{{..}}", "{{break}}",
	// names other generated programs define: must still be undefined here
	"{{template \"T1\" .}}", "{{template \"T2\"}}", "{{template \"B1\" .}}",
}

// genTemplate returns a template program for a report of the given level.
// class is "valid" (by construction; text/template has the last word),
// "broken" (contains a construct that fails at parse or execution time) or
// "edited" (random character edits of a valid program).
func genTemplate(r *rng, level int) (text string, class string, features map[string]int) {
	own, shadowed := reportFields(level)
	g := &tmplGen{r: r, level: level, own: own, shadowed: shadowed, class: map[string]int{}}
	body := g.seq(r.between(1, 6))
	text = g.defText.String() + body
	if r.chance(1, 6) {
		// definitions after the body are legal too
		text = body + g.defText.String()
	}
	switch c := r.intn(100); {
	case c < 60:
		return text, "valid", g.class
	case c < 82:
		// insert a broken construct somewhere at top level (prefix, middle or end)
		b := pick(r, brokenBits)
		g.use("broken")
		switch r.intn(3) {
		case 0:
			return b + text, "broken", g.class
		case 1:
			return text + b, "broken", g.class
		default:
			// after some literal output so that execution fails after writing
			return "partial output " + text + b + " tail", "broken", g.class
		}
	default:
		bs := []byte(text)
		n := r.between(1, 3)
		for i := 0; i < n && len(bs) > 0; i++ {
			p := r.intn(len(bs))
			switch r.intn(3) {
			case 0:
				bs = append(bs[:p:p], bs[p+1:]...)
			case 1:
				bs[p] = pick(r, []byte("{}.|\"$ -/*x1"))
			default:
				ins := pick(r, []byte("{}.|\"$ -"))
				bs = append(bs[:p:p], append([]byte{ins}, bs[p:]...)...)
			}
		}
		g.use("edited")
		return string(bs), "edited", g.class
	}
}
