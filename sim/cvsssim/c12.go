package main

// c12.go: no input or receiver state makes the library panic or fabricate a result.

import (
	"fmt"
	"reflect"
	"strconv"

	"simrt"
)

func genC12(d *RunDesc, tier string) {
	wl := newRng(simrt.Mix(d.Seed, 1))
	d.MapSeed = simrt.Mix(d.Seed, 3)
	d.MapPolicy = []int{simrt.MapCanonical, simrt.MapReversed, simrt.MapPermuted, simrt.MapPermuted}[wl.intn(4)]
	d.Sched.Policy = simrt.PolicyNone
	ops := []Op{{K: "nils"}, {K: "fresh"}}
	if d.RunIndex%400 == 7 {
		// complete enumeration of the shortest inputs: every one-byte string and
		// every two-byte string over the characters that matter to the parsers
		ops = append(ops, Op{K: "bytesweep"})
	}
	n := wl.between(4, 16)
	big := tier == "thorough"
	slot := 1
	for i := 0; i < n; i++ {
		k := wl.intn(NKinds)
		v, class, sh := genVector(wl, k, big)
		nilrecv := wl.chance(1, 3)
		ops = append(ops, Op{K: "dec", Kind: k, NilRecv: nilrecv, Vec: v, Dst: slot, Class: class, HasTemp: sh.HasTemporal, HasEnv: sh.HasEnv})
		// what follows depends on the outcome, which only the library knows:
		// both follow-ups are generated, the inapplicable one is skipped at run time.
		ops = append(ops, Op{K: "obs", Obj: &Ref{I: slot}, LB: true, Obs: "all"})
		ops = append(ops, Op{K: "obs", Obj: &Ref{I: slot}, Obs: "all"})
		if class == "valid" && (wl.chance(1, 2) || tier == "thorough") {
			ops = append(ops, Op{K: "flt", Obj: &Ref{I: slot}, Sweep: true})
		}
		if wl.chance(1, 3) {
			// decode again on the same receiver (a decoder obtained from a constructor
			// stays one after its first use): whatever the outcome, it must again be
			// a usable object XOR an error
			v2, class2, _ := genVector(wl, k, false)
			if wl.chance(1, 2) {
				v2, _ = genValidVector(wl, k)
				class2 = "valid"
			}
			ops = append(ops, Op{K: "redec", Obj: &Ref{I: slot}, Vec: v2, Class: class2})
			ops = append(ops, Op{K: "obs", Obj: &Ref{I: slot}, LB: true, Obs: "all"})
			ops = append(ops, Op{K: "obs", Obj: &Ref{I: slot}, Obs: "all"})
		}
		slot++
	}
	d.Tasks = [][]Op{ops}
}

type fieldRef struct {
	chain []int
	name  string
	level int
	typ   reflect.Type
}

// fieldsOf lists the exported metric fields of a metrics object through its
// embedded lower levels, with the level of the struct that declares them.
func fieldsOf(p any) []fieldRef {
	var out []fieldRef
	top := kindLevel(kindOf(p))
	var walk func(t reflect.Type, chain []int, level int, prefix string)
	walk = func(t reflect.Type, chain []int, level int, prefix string) {
		for i := 0; i < t.NumField(); i++ {
			f := t.Field(i)
			c := append(append([]int{}, chain...), i)
			if f.Anonymous && f.Type.Kind() == reflect.Ptr && f.Type.Elem().Kind() == reflect.Struct {
				walk(f.Type.Elem(), c, level-1, prefix+f.Name+".")
				continue
			}
			if !f.IsExported() || f.Type.Kind() != reflect.Int {
				continue
			}
			out = append(out, fieldRef{chain: c, name: prefix + f.Name, level: level, typ: f.Type})
		}
	}
	walk(reflect.TypeOf(p).Elem(), nil, top, "")
	return out
}

// invalidValueOf asks the library itself for the unknown/invalid value of a
// metric type: the Get* function of that type applied to a string that is no code.
func invalidValueOf(t reflect.Type) (reflect.Value, bool) {
	for _, l := range lookups {
		ft := reflect.TypeOf(l.fn)
		if ft.NumIn() == 1 && ft.In(0).Kind() == reflect.String && ft.NumOut() >= 1 && ft.Out(0) == t {
			arg := "\x00no-such-code"
			if ft.NumOut() == 2 {
				arg = "CVSS:\x00none" // GetVersion wants the CVSS: prefix
			}
			outs := reflect.ValueOf(l.fn).Call([]reflect.Value{reflect.ValueOf(arg)})
			return outs[0], true
		}
	}
	return reflect.Value{}, false
}

func fieldValue(p any, f fieldRef) (v reflect.Value, ok bool) {
	defer func() {
		if recover() != nil {
			ok = false
		}
	}()
	return reflect.ValueOf(p).Elem().FieldByIndex(f.chain), true
}

// levelsOf returns the object itself and its embedded lower-level objects
// (through the accessors), each with its level.
func levelsOf(p any) (out []struct {
	obj   any
	level int
	via   string
}) {
	type lv = struct {
		obj   any
		level int
		via   string
	}
	top := kindLevel(kindOf(p))
	out = []lv{{p, top, "self"}}
	defer func() { _ = recover() }() // a panicking accessor is reported by noPanicAll
	if isNilObj(p) {
		return out
	}
	if top >= 1 {
		if b, ok := baseMetricsOf(p); ok && !isNilObj(b) {
			out = append(out, lv{b, 0, "BaseMetrics()"})
		}
	}
	if top == 2 {
		if t, ok := temporalMetricsOf(p); ok && !isNilObj(t) {
			out = append(out, lv{t, 1, "TemporalMetrics()"})
		}
	}
	return out
}

type c12ctx struct {
	res  *RunResult
	task int
	op   int
	seen map[uint64]bool
}

func (c *c12ctx) caseKey(s string) {
	h := hashString(s)
	if !c.seen[h] {
		c.seen[h] = true
		c.res.Stats.CaseKeys = append(c.res.Stats.CaseKeys, h)
	}
}

// mustBeInvalid enforces: validity and encoding queries report an error and the
// score is 0.  what describes the state for the report.
func (c *c12ctx) mustBeInvalid(q any, kind int, what string) {
	r := guard(func() string {
		m := asMetrics(q)
		if err := m.GetError(); err == nil {
			c.res.addViolation("fabricated:"+kindNames[kind]+".GetError", what+": GetError() == nil on "+snapshot(q), c.task, c.op)
		}
		if s, err := m.Encode(); err == nil {
			c.res.addViolation("fabricated:"+kindNames[kind]+".Encode", what+": Encode() = "+strconv.Quote(s)+" with nil error on "+snapshot(q), c.task, c.op)
		}
		if sc := m.Score(); sc != 0 {
			c.res.addViolation("fabricated:"+kindNames[kind]+".Score", what+": Score() = "+fbits(sc)+" on "+snapshot(q), c.task, c.op)
		}
		return ""
	})
	if isPanic(r) {
		c.res.addViolation("panic:query:"+panicFrame(r), what+": "+r, c.task, c.op)
	}
}

// noPanicAll calls every observer and only demands that none panics.
func (c *c12ctx) noPanicAll(p any, what string) {
	for _, o := range observerNames {
		r := guard(func() string { return observe(p, o) })
		if isPanic(r) {
			c.res.addViolation("panic:"+o+":"+panicFrame(r), what+": "+o+": "+r, c.task, c.op)
		}
		c.caseKey(kindNames[kindOf(p)] + "|" + what + "|" + o)
	}
}

// stateInvalidUpTo reports whether some field declared at a level <= ql holds
// its invalid value (v2: base level only, see DESIGN 5.1).
func stateInvalidUpTo(p any, ql int, v2 bool) (bool, string) {
	for _, f := range fieldsOf(p) {
		if f.level > ql {
			continue
		}
		if v2 && f.level > 0 {
			continue
		}
		inv, ok := invalidValueOf(f.typ)
		if !ok {
			continue
		}
		v, ok := fieldValue(p, f)
		if !ok {
			continue
		}
		if v.Int() == inv.Int() {
			return true, f.name
		}
	}
	return false, ""
}

func runC12(d *RunDesc, res *RunResult) {
	cfg := d.simConfig()
	ctx := newTaskCtx(nil)
	cc := &c12ctx{res: res, seen: map[uint64]bool{}}
	task := func() {
		for i := range d.Tasks[0] {
			op := &d.Tasks[0][i]
			cc.op = i
			if op.K != "dec" && op.K != "redec" {
				ctx.tick(op)
			}
			switch op.K {
			case "nils", "fresh":
				for k := 0; k < NKinds; k++ {
					var p any
					if op.K == "nils" {
						p = nilObj(k)
					} else {
						p = newObj(k)
					}
					cc.noPanicAll(p, op.K)
					cc.mustBeInvalid(p, k, op.K+" "+kindNames[k])
					if op.K == "fresh" {
						for _, l := range levelsOf(p) {
							if l.via != "self" {
								cc.mustBeInvalid(l.obj, kindOf(l.obj), "fresh "+kindNames[k]+"."+l.via)
							}
						}
					}
				}
				res.Stats.count(op.K + "-sweeps")
			case "dec":
				r := ctx.execOp(op)
				if isPanic(r) {
					res.addViolation("panic:dec:"+panicFrame(r), fmt.Sprintf("%s.Decode(%s) nilrecv=%v: %s", kindNames[op.Kind], strconv.Quote(clip(op.Vec, 200)), op.NilRecv, r), 0, i)
					break
				}
				s := ctx.objs[op.Dst]
				hasObj := !isNilObj(s.res)
				what := fmt.Sprintf("%s.Decode(%s) nilrecv=%v", kindNames[op.Kind], strconv.Quote(clip(op.Vec, 200)), op.NilRecv)
				switch {
				case hasObj && s.err != nil:
					res.addViolation("both:"+kindNames[op.Kind], what+": returned an object and error "+errClass(s.err), 0, i)
				case !hasObj && s.err == nil:
					res.addViolation("neither:"+kindNames[op.Kind], what+": returned neither object nor error", 0, i)
				case hasObj:
					// usable object
					rr := guard(func() string {
						m := asMetrics(s.res)
						if err := m.GetError(); err != nil {
							res.addViolation("unusable:"+kindNames[op.Kind]+".GetError", what+": decoded object reports "+errClass(err), 0, i)
						}
						if _, err := m.Encode(); err != nil {
							res.addViolation("unusable:"+kindNames[op.Kind]+".Encode", what+": decoded object cannot be encoded: "+errClass(err), 0, i)
						}
						return ""
					})
					if isPanic(rr) {
						res.addViolation("panic:query:"+panicFrame(rr), what+": "+rr, 0, i)
					}
				}
				res.Stats.count("dec-" + op.Class)
				if s.err != nil {
					res.Stats.count("decfail:" + errSentinels(s.err))
				}
				cc.caseKey("dec|" + op.Vec + "|" + strconv.Itoa(op.Kind) + "|" + strconv.FormatBool(op.NilRecv))
			case "bytesweep":
				var inputs []string
				for b := 0; b < 256; b++ {
					inputs = append(inputs, string([]byte{byte(b)}))
				}
				alpha := []byte("()[]{}:/.,;-_ \t\n\x00\xff\x80ACVNSaX3012#%\"'\\")
				for _, a := range alpha {
					for _, b := range alpha {
						inputs = append(inputs, string([]byte{a, b}))
					}
				}
				for _, in := range inputs {
					for k := 0; k < NKinds; k++ {
						for _, nr := range []bool{false, true} {
							in, k, nr := in, k, nr
							r := guard(func() string {
								s := doDecode(k, nr, in)
								if !isNilObj(s.res) && s.err != nil {
									return "both"
								}
								if isNilObj(s.res) && s.err == nil {
									return "neither"
								}
								return "ok"
							})
							what := fmt.Sprintf("%s.Decode(%s) nilrecv=%v", kindNames[k], strconv.Quote(in), nr)
							switch {
							case isPanic(r):
								res.addViolation("panic:dec:"+panicFrame(r), what+": "+r, 0, i)
							case r == "both":
								res.addViolation("both:"+kindNames[k], what+": returned an object and an error", 0, i)
							case r == "neither":
								res.addViolation("neither:"+kindNames[k], what+": returned neither object nor error", 0, i)
							}
						}
					}
				}
				res.Stats.count("byte-sweeps")
				res.Stats.Counters["byte-sweep-decodes"] += len(inputs) * NKinds * 2
			case "redec":
				sl := ctx.slot(op.Obj)
				if sl == nil || isNilObj(sl.current()) {
					break
				}
				first := sl.vec
				r := ctx.execOp(op)
				what := fmt.Sprintf("%s: Decode(%s) on a receiver that had already decoded %s", kindNames[sl.kind], strconv.Quote(clip(op.Vec, 200)), strconv.Quote(clip(first, 200)))
				if isPanic(r) {
					res.addViolation("panic:dec:"+panicFrame(r), what+": "+r, 0, i)
					break
				}
				if r == "skip" {
					break
				}
				res.Stats.count("redecodes")
				hasObj := !isNilObj(sl.res)
				switch {
				case hasObj && sl.err != nil:
					res.addViolation("both:"+kindNames[sl.kind], what+": returned an object and error "+errClass(sl.err), 0, i)
				case !hasObj && sl.err == nil:
					res.addViolation("neither:"+kindNames[sl.kind], what+": returned neither object nor error", 0, i)
				case hasObj:
					res.Stats.count("redecodes-accepted")
					rr := guard(func() string {
						m := asMetrics(sl.res)
						if err := m.GetError(); err != nil {
							res.addViolation("unusable:"+kindNames[sl.kind]+".GetError", what+": returned an object and no error, but the object reports "+errClass(err), 0, i)
						}
						if _, err := m.Encode(); err != nil {
							res.addViolation("unusable:"+kindNames[sl.kind]+".Encode", what+": returned an object and no error, but the object cannot be encoded: "+errClass(err), 0, i)
						}
						return ""
					})
					if isPanic(rr) {
						res.addViolation("panic:query:"+panicFrame(rr), what+": "+rr, 0, i)
					}
				}
			case "obs":
				p, _, ok := ctx.operand(op)
				if !ok {
					break
				}
				state := "decoded"
				if op.LB {
					state = "left-behind"
					res.Stats.count("left-behind-observed")
				}
				cc.noPanicAll(p, state)
				for _, l := range levelsOf(p) {
					if l.via != "self" {
						cc.noPanicAll(l.obj, state+"."+l.via)
					}
					if op.LB {
						if bad, fname := stateInvalidUpTo(p, l.level, kindIsV2(kindOf(p))); bad {
							cc.mustBeInvalid(l.obj, kindOf(l.obj), fmt.Sprintf("left-behind %s after Decode(%s), %s holds its invalid value, queried through %s", kindNames[kindOf(p)], strconv.Quote(clip(ctx.slot(op.Obj).vec, 200)), fname, l.via))
							res.Stats.count("left-behind-invalid-state")
						}
					}
				}
			case "flt":
				s := ctx.slot(op.Obj)
				if s == nil || s.err != nil || isNilObj(s.res) {
					break
				}
				v2 := kindIsV2(s.kind)
				for _, f := range fieldsOf(s.res) {
					inv, ok := invalidValueOf(f.typ)
					if !ok {
						res.Stats.count("flt-no-invalid-value")
						continue
					}
					// fresh copy, then the state fault.  Two variants: the fault hits a
					// pristine object, or one that has already been queried and reported on
					// (a fault at a later instant of the object's history).
					var fr string
					for _, warmed := range []bool{false, true} {
						warmed := warmed
						fr = guard(func() string {
							c := doDecode(s.kind, false, s.vec)
							if c.err != nil || isNilObj(c.res) {
								return "skip"
							}
							if warmed {
								_ = observeAll(c.res)
								if rep, ok := newReport(c.res, 0); ok {
									_ = snapshot(rep)
								}
								res.Stats.count("state-faults-after-queries")
							}
							fv, ok := fieldValue(c.res, f)
							if !ok || !fv.CanSet() {
								return "skip"
							}
							fv.Set(inv)
							res.Stats.count("state-faults")
							when := ""
							if warmed {
								when = " after the object had been queried"
							}
							what := fmt.Sprintf("%s decoded from %s with field %s reset to its invalid value%s", kindNames[s.kind], strconv.Quote(clip(s.vec, 200)), f.name, when)
							cc.noPanicAll(c.res, "faulted:"+f.name)
							for _, l := range levelsOf(c.res) {
								if l.via != "self" {
									cc.noPanicAll(l.obj, "faulted:"+f.name+"."+l.via)
								}
								obliged := l.level >= f.level
								if v2 && f.level == 1 && !s.hasTemp {
									obliged = false
								}
								if v2 && f.level == 2 && !s.hasEnv {
									obliged = false
								}
								if obliged {
									cc.mustBeInvalid(l.obj, kindOf(l.obj), what+", queried through "+l.via)
									res.Stats.count("state-faults-obliging")
									cc.caseKey(fmt.Sprintf("flt|%s|%s|%s|%v", kindNames[s.kind], f.name, l.via, warmed))
								}
							}
							return ""
						})
						if isPanic(fr) {
							break
						}
					}
					if isPanic(fr) {
						res.addViolation("panic:fault:"+panicFrame(fr), fr, 0, i)
					}
				}
			}
			simrt.Note(uint64(len(res.Violations)))
		}
	}
	sr := simrt.Run(cfg, []func(){task})
	res.FP = simrt.Mix(sr.FP, sr.Yields)
	res.Stats.Yields = sr.Yields
	res.Stats.MapRanges = sr.MapRanges
	res.Stats.Ops = d.nOps()
	res.Stats.Tasks = 1
	res.Stats.DecodeOK, res.Stats.DecodeFail = ctx.nOK, ctx.nFail
	if sr.Budget {
		res.Stats.count("yield-budget-exceeded") // informational; a real endless loop ends in the watchdog
	}
	for i := range d.Tasks[0] {
		if d.Tasks[0][i].K == "dec" {
			res.Stats.Sample = fmt.Sprintf("%s.Decode(%s) nilrecv=%v class=%s", kindNames[d.Tasks[0][i].Kind], strconv.Quote(clip(d.Tasks[0][i].Vec, 120)), d.Tasks[0][i].NilRecv, d.Tasks[0][i].Class)
			break
		}
	}
}
