package main

// c15.go: queries never modify a metrics object; results are deterministic and
// independent of what the process did before.  One run = one process.

import (
	"fmt"
	"os"
	"strings"

	"simrt"
)

// poolEpochRuns: runs with index in the same block of this size share one input
// pool, so that the same inputs recur in many runs (= many processes with
// different histories) and the driver can compare their results across processes;
// different blocks use different pools, so that the whole batch still covers many
// inputs.
const poolEpochRuns = 400

type poolInput struct {
	kind    int
	nilrecv bool
	vec     string
	family  int // >0: inputs of one family are variants of each other
}

func defsFor(k int) []metricDef {
	var d []metricDef
	if kindIsV2(k) {
		d = append(d, v2BaseDefs...)
		d = append(d, v2TempDefs...)
		d = append(d, v2EnvDefs...)
	} else {
		d = append(d, v3BaseDefs...)
		d = append(d, v3TempDefs...)
		d = append(d, v3EnvDefs...)
	}
	return d
}

// variantsOf derives near-collisions of a valid vector: the other CVSS 3.x
// version, one metric changed to another of its codes, a group dropped.  Caches
// keyed too coarsely confuse exactly such siblings.
func variantsOf(r *rng, k int, v string) []string {
	var out []string
	toks := strings.Split(v, "/")
	first := 0
	if !kindIsV2(k) {
		first = 1
		t := append([]string{}, toks...)
		if t[0] == "CVSS:3.1" {
			t[0] = "CVSS:3.0"
		} else {
			t[0] = "CVSS:3.1"
		}
		out = append(out, strings.Join(t, "/"))
	}
	defs := defsFor(k)
	for n := 0; n < 2 && len(toks) > first; n++ {
		i := first + r.intn(len(toks)-first)
		nv := strings.SplitN(toks[i], ":", 2)
		for _, d := range defs {
			if d.name == nv[0] && len(nv) == 2 {
				alt := pick(r, d.vals)
				if alt != nv[1] {
					t := append([]string{}, toks...)
					t[i] = d.name + ":" + alt
					out = append(out, strings.Join(t, "/"))
				}
				break
			}
		}
	}
	if kindIsV2(k) && len(toks) > 9 {
		out = append(out, strings.Join(toks[:len(toks)-5], "/")) // without the environmental group
	}
	// two metrics changed at once (what a packed or hashed cache key with one
	// field spilling into its neighbour confuses)
	for n := 0; n < 4 && len(toks) > first+1; n++ {
		t := append([]string{}, toks...)
		changed := 0
		for tries := 0; tries < 8 && changed < 2; tries++ {
			i := first + r.intn(len(t)-first)
			nv := strings.SplitN(t[i], ":", 2)
			for _, d := range defs {
				if d.name == nv[0] && len(nv) == 2 {
					if alt := pick(r, d.vals); alt != nv[1] && t[i] == toks[i] {
						t[i] = d.name + ":" + alt
						changed++
					}
					break
				}
			}
		}
		if changed == 2 {
			out = append(out, strings.Join(t, "/"))
		}
	}
	return out
}

// epochPool is a function of (base seed, epoch) only.
func epochPool(base, epoch uint64) (ins []poolInput, tmpls []string) {
	r := newRng(simrt.Mix(simrt.Mix(base, 0xC15), epoch))
	for i := 0; i < 30; i++ {
		k := i % NKinds
		var v string
		switch {
		case i < 12:
			v, _ = genValidVector(r, k)
		case i < 20:
			v, _, _ = genVector(r, k, false)
		default:
			// decodes that abort half-way and leave a partially filled receiver
			v, _ = genAbortVector(r, k)
		}
		ins = append(ins, poolInput{k, r.chance(1, 4), v, 0})
	}
	for f := 1; f <= 10; f++ {
		k := []int{KV3Env, KV3Env, KV3Temporal, KV3Base, KV2Env, KV2Temporal, KV3Env, KV2Env, KV3Temporal, KV2Base}[f-1]
		v, _ := genValidVector(r, k)
		nr := r.chance(1, 4)
		ins = append(ins, poolInput{k, nr, v, f})
		for _, vv := range variantsOf(r, k, v) {
			ins = append(ins, poolInput{k, nr, vv, f})
		}
	}
	for i := 0; i < 12; i++ {
		t, _, _ := genTemplate(r, i%3)
		tmpls = append(tmpls, t)
	}
	return
}

// genSiblingSweep: the first two runs of every block of poolEpochRuns runs decode
// and query one full vector and ALL its near-collisions - every single metric
// changed to every other code, every PAIR of metrics changed to every combination
// of codes, the other CVSS 3.x version - one of the two runs in forward, the other
// in reverse order.  A cache or memo that confuses two such siblings (a key that
// omits a field, packs two fields into overlapping bits, hashes too coarsely)
// serves whichever was seen first, so the two processes disagree on at least one
// of them; the driver's cross-process comparison sees it.  Complete enumeration of
// the 1- and 2-metric neighbourhood of a sampled vector.
func genSiblingSweep(d *RunDesc, reverse bool) {
	epoch := d.RunIndex / poolEpochRuns
	r := newRng(simrt.Mix(simrt.Mix(d.BaseSeed, 0x51b), epoch))
	k := []int{KV3Env, KV3Env, KV2Env, KV3Temporal, KV2Temporal, KV3Base, KV2Base, KV3Env}[r.intn(8)]
	var defs []metricDef
	if kindIsV2(k) {
		defs = append(defs, v2BaseDefs...)
		if kindLevel(k) >= 1 {
			defs = append(defs, v2TempDefs...)
		}
		if kindLevel(k) >= 2 {
			defs = append(defs, v2EnvDefs...)
		}
	} else {
		defs = append(defs, metricDef{"CVSS", []string{"3.1", "3.0"}})
		defs = append(defs, v3BaseDefs...)
		if kindLevel(k) >= 1 {
			defs = append(defs, v3TempDefs...)
		}
		if kindLevel(k) >= 2 {
			defs = append(defs, v3EnvDefs...)
		}
	}
	base := make([]string, len(defs))
	for i, df := range defs {
		base[i] = pick(r, df.vals)
	}
	render := func(vals []string) string {
		toks := make([]string, len(defs))
		for i, df := range defs {
			toks[i] = df.name + ":" + vals[i]
		}
		return strings.Join(toks, "/")
	}
	vecs := []string{render(base)}
	for i := range defs {
		for _, vi := range defs[i].vals {
			if vi == base[i] {
				continue
			}
			v := append([]string{}, base...)
			v[i] = vi
			vecs = append(vecs, render(v))
			for j := i + 1; j < len(defs); j++ {
				for _, vj := range defs[j].vals {
					if vj == base[j] {
						continue
					}
					w := append([]string{}, v...)
					w[j] = vj
					vecs = append(vecs, render(w))
				}
			}
		}
	}
	if reverse {
		for a, b := 0, len(vecs)-1; a < b; a, b = a+1, b-1 {
			vecs[a], vecs[b] = vecs[b], vecs[a]
		}
	}
	d.MapSeed = simrt.Mix(d.Seed, 3)
	d.MapPolicy = simrt.MapPermuted
	d.Sched.Policy = simrt.PolicyNone
	ops := make([]Op, 0, 2*len(vecs))
	for i, v := range vecs {
		ops = append(ops, Op{K: "dec", Kind: k, Vec: v, Dst: i + 1})
		ops = append(ops, Op{K: "obs", Obj: &Ref{I: i + 1}, Obs: "all"})
	}
	d.Tasks = [][]Op{ops}
	d.CrossCap = 2*len(vecs) + 10
	d.Note = fmt.Sprintf("sibling sweep over %d near-collisions of one %s vector, reverse=%v", len(vecs), kindNames[k], reverse)
}

// genVolumeRun: the third run of every block pushes some 70,000 distinct valid
// vectors of one kind through one process (decode, score) and then queries the
// first 1,500 objects again.  A process-wide cache whose defect only shows beyond
// a capacity of thousands of entries (eviction that leaves a stale index entry,
// a table that is rebuilt when it grows) is driven past 2^16 entries.
func genVolumeRun(d *RunDesc) {
	epoch := d.RunIndex / poolEpochRuns
	r := newRng(simrt.Mix(simrt.Mix(d.BaseSeed, 0x701), epoch))
	k := []int{KV3Env, KV3Env, KV3Temporal, KV2Env, KV3Env, KV2Temporal}[r.intn(6)]
	d.MapSeed = simrt.Mix(d.Seed, 3)
	d.MapPolicy = simrt.MapCanonical
	d.Sched.Policy = simrt.PolicyNone
	const n = 1<<16 + 16000 // about one vector in twelve repeats an earlier value set (all-Not-Defined shapes); the rest must still exceed 2^16
	const keep = 1500
	ops := make([]Op, 0, n+keep)
	for i := 0; i < n; i++ {
		v, _ := genValidVector(r, k)
		ops = append(ops, Op{K: "dsc", Kind: k, Vec: v, Dst: i + 1})
	}
	for i := 0; i < keep; i++ {
		ops = append(ops, Op{K: "rsc", Obj: &Ref{I: i + 1}})
	}
	d.Tasks = [][]Op{ops}
	d.CrossCap = 4000
	d.Note = fmt.Sprintf("volume run: %d distinct %s vectors in one process, the first %d queried again at the end", n, kindNames[k], keep)
}

func genC15(d *RunDesc, tier string) {
	if d.RunIndex%poolEpochRuns < 2 {
		genSiblingSweep(d, d.RunIndex%poolEpochRuns == 1)
		return
	}
	if d.RunIndex%(4*poolEpochRuns) == 2 || (tier == "thorough" && d.RunIndex%poolEpochRuns == 2) {
		genVolumeRun(d)
		return
	}
	wl := newRng(simrt.Mix(d.Seed, 1))
	fl := newRng(simrt.Mix(d.Seed, 4))
	d.MapSeed = simrt.Mix(d.Seed, 3)
	d.MapPolicy = []int{simrt.MapCanonical, simrt.MapReversed, simrt.MapPermuted, simrt.MapPermuted, simrt.MapPermuted}[wl.intn(5)]
	d.Sched.Policy = simrt.PolicyNone
	gp, gt := epochPool(d.BaseSeed, d.RunIndex/poolEpochRuns)
	// this run's pool
	var pool []poolInput
	n := wl.between(2, 10)
	for i := 0; i < n; i++ {
		in := pick(wl, gp)
		pool = append(pool, in)
		if in.family > 0 && wl.chance(2, 3) {
			// pull in the siblings as well
			for _, o := range gp {
				if o.family == in.family && o.vec != in.vec {
					pool = append(pool, o)
				}
			}
		}
	}
	for i := wl.intn(3); i > 0; i-- {
		k := wl.intn(NKinds)
		v, _, _ := genVector(wl, k, false)
		pool = append(pool, poolInput{k, wl.chance(1, 3), v, 0})
	}
	tmpls := []string{pick(wl, gt), pick(wl, gt), pick(wl, gt)}
	if wl.chance(1, 2) {
		t, _, _ := genTemplate(wl, wl.intn(3))
		tmpls = append(tmpls, t)
	}
	faultPool := map[string][]Fault{}
	for _, t := range tmpls {
		for i := 0; i < 2; i++ {
			faultPool[t] = append(faultPool[t], genFault(fl, len(t), i == 1 && wl.chance(1, 2)))
		}
	}
	maxLen := 200
	if tier == "thorough" && wl.chance(1, 10) {
		maxLen = 2000
	}
	length := wl.between(5, maxLen)
	if wl.chance(1, 2) {
		length = wl.between(5, 40)
	}
	wideMode := false
	var widePool []poolInput
	if wl.chance(1, 8) {
		// a "wide" history: many distinct inputs of one or two kinds in one process,
		// so that a bounded cache (eviction, resize, generation counters) is driven
		// past its capacity; siblings of earlier inputs keep recurring
		wide := maxLen
		if wide < 900 && wl.chance(1, 2) {
			wide = 900
		}
		length = wl.between(wide/2, wide)
		kinds := []int{wl.intn(NKinds), wl.intn(NKinds)}
		for i := wl.between(40, wide/2); i > 0; i-- {
			k := pick(wl, kinds)
			v, _ := genValidVector(wl, k)
			pool = append(pool, poolInput{k, false, v, 0})
		}
		if wl.chance(1, 3) {
			// ... and sometimes really wide: a thousand or so distinct inputs, each
			// decoded and scored once, with early objects re-queried in between
			wideMode = true
			length = wl.between(1500, 3500)
			for i := wl.between(400, 1400); i > 0; i-- {
				k := pick(wl, kinds)
				v, _ := genValidVector(wl, k)
				widePool = append(widePool, poolInput{k, false, v, 0})
			}
		}
	}
	// one run in ten also drops owners of embedded objects and forces garbage
	// collections (finalizers, pool clearing) between operations
	gcRun := wl.chance(1, 10)
	var ops []Op
	slot := 1
	var live []int // object slots
	var reps []int // report slots
	type pendingOp struct {
		at int
		op Op
	}
	var pendingReads []pendingOp
	for len(ops) < length || len(pendingReads) > 0 {
		// due deferred reads first
		if len(pendingReads) > 0 && (len(ops) >= pendingReads[0].at || len(ops) >= length) {
			ops = append(ops, pendingReads[0].op)
			pendingReads = pendingReads[1:]
			continue
		}
		c := wl.intn(100)
		if wideMode && len(widePool) > 0 && c < 55 {
			// next fresh input: decode it and ask for everything once
			in := widePool[len(widePool)-1]
			widePool = widePool[:len(widePool)-1]
			ops = append(ops, Op{K: "dec", Kind: in.kind, NilRecv: in.nilrecv, Vec: in.vec, Dst: slot})
			ops = append(ops, Op{K: "obs", Obj: &Ref{I: slot}, Obs: pick(wl, []string{"all", "Score", "Severity", "Encode"})})
			live = append(live, slot)
			slot++
			continue
		}
		switch {
		case c < 22 || len(live) == 0:
			in := pick(wl, pool)
			ops = append(ops, Op{K: "dec", Kind: in.kind, NilRecv: in.nilrecv, Vec: in.vec, Dst: slot})
			live = append(live, slot)
			slot++
		case c < 62:
			o := pick(wl, live)
			obs := "all"
			if wl.chance(2, 3) {
				obs = pick(wl, observerNames)
			}
			op := Op{K: "obs", Obj: &Ref{I: o}, Obs: obs, LB: wl.chance(1, 3)}
			reps := 1
			if wl.chance(1, 4) {
				reps = wl.between(2, 4)
			}
			for j := 0; j < reps; j++ {
				ops = append(ops, op)
			}
		case c < 67:
			ops = append(ops, Op{K: "snap", Obj: &Ref{I: pick(wl, live)}, LB: wl.chance(1, 4)})
		case c < 79:
			o := pick(wl, live)
			ops = append(ops, Op{K: "rep", Obj: &Ref{I: o}, Lang: wl.intn(len(langs)), Dst: slot})
			reps = append(reps, slot)
			slot++
		case c < 88:
			if len(reps) == 0 {
				continue
			}
			t := pick(wl, tmpls)
			op := Op{K: "exp", Rep: &Ref{I: pick(wl, reps)}, Tmpl: t, Via: "str"}
			if wl.chance(1, 2) {
				op.Via = "rd"
				f := pick(wl, faultPool[t])
				op.Fault = &f
			}
			if wl.chance(1, 3) {
				// leave the returned reader unread for a while
				op.Defer, op.Dst = true, slot
				pendingReads = append(pendingReads, pendingOp{at: len(ops) + wl.between(2, 7), op: Op{K: "read", IArg: slot}})
				slot++
			}
			ops = append(ops, op)
		case c < 91:
			// decode again on a receiver that has already been used (and queried)
			o := pick(wl, live)
			in := pick(wl, pool)
			ops = append(ops, Op{K: "redec", Obj: &Ref{I: o}, Vec: in.vec})
		case c < 94:
			// assign an exported field: the value another live object holds, or the invalid value
			o := pick(wl, live)
			op := Op{K: "set", Obj: &Ref{I: o}, IArg: wl.intn(64)}
			if wl.chance(2, 3) {
				op.Donor = &Ref{I: pick(wl, live)}
			}
			ops = append(ops, op)
		case c < 95 && gcRun:
			if wl.chance(1, 2) {
				o := pick(wl, live)
				ops = append(ops, Op{K: "inner", Obj: &Ref{I: o}, Field: pick(wl, []string{"Base", "Base", "Temporal"}), Dst: slot})
				// the owner's slot may since be gone; later ops on it are skipped
				live = append(live, slot)
				slot++
			} else {
				ops = append(ops, Op{K: "gc"})
			}
		case c < 96:
			ops = append(ops, Op{K: "lkp", Fn: wl.intn(nLookups()), SArg: pick(wl, lookupArgs), IArg: wl.intn(63), Lang: wl.intn(len(langs))})
		default:
			ops = append(ops, Op{K: "twin", Obj: &Ref{I: pick(wl, live)}, LB: wl.chance(1, 4)})
		}
	}
	// Completion by assignment (one history in four, own PRNG stream): a receiver
	// whose decode failed because a metric was missing is completed field by field
	// from a decoded donor of the same kind, queried, changed again in a few fields
	// from a second donor, queried again and compared with its query-free twin.
	// Such an object has the donor's field values but the bookkeeping (names set) of
	// the failed decode: whatever derives a key or a fast path from Encode/String or
	// from the bookkeeping instead of the fields goes stale here and nowhere else.
	if cp := newRng(simrt.Mix(d.Seed, 7)); cp.chance(1, 4) {
		k := cp.intn(NKinds)
		v1, _ := genValidVector(cp, k)
		v2, _ := genValidVector(cp, k)
		toks := strings.Split(v1, "/")
		if len(toks) > 2 {
			i := 1 + cp.intn(len(toks)-1)
			if kindIsV2(k) {
				i = cp.intn(len(toks))
			}
			toks = append(toks[:i:i], toks[i+1:]...)
		}
		broken := strings.Join(toks, "/")
		a, b, c := slot, slot+1, slot+2
		slot += 3
		ops = append(ops,
			Op{K: "dec", Kind: k, Vec: v1, Dst: a},
			Op{K: "dec", Kind: k, Vec: v2, Dst: b},
			Op{K: "dec", Kind: k, Vec: broken, Dst: c})
		if cp.chance(1, 3) {
			ops = append(ops, Op{K: "obs", Obj: &Ref{I: c}, Obs: "all", LB: true})
		}
		for i := 0; i < 25; i++ {
			ops = append(ops, Op{K: "set", Obj: &Ref{I: c}, IArg: i, Donor: &Ref{I: a}})
		}
		ops = append(ops, Op{K: "obs", Obj: &Ref{I: c}, Obs: "all", LB: true})
		for n := cp.between(1, 3); n > 0; n-- {
			ops = append(ops, Op{K: "set", Obj: &Ref{I: c}, IArg: cp.intn(25), Donor: &Ref{I: b}})
			ops = append(ops, Op{K: "obs", Obj: &Ref{I: c}, Obs: pick(cp, []string{"all", "Score", "Severity", "Encode", "String"}), LB: true})
		}
		ops = append(ops, Op{K: "twin", Obj: &Ref{I: c}, LB: true})
		live = append(live, a, b, c)
	}
	// every history ends with a twin check of every live object (bounded)
	for i, s := range live {
		if i >= 24 {
			break
		}
		ops = append(ops, Op{K: "twin", Obj: &Ref{I: s}})
		ops = append(ops, Op{K: "twin", Obj: &Ref{I: s}, LB: true})
	}
	d.Tasks = [][]Op{ops}
}

var crossVerbose = os.Getenv("CVSSSIM_CROSS_VERBOSE") != ""

func runC15(d *RunDesc, res *RunResult) {
	cfg := d.simConfig()
	ctx := newTaskCtx(nil)
	crossCap := 600
	if d.CrossCap > 0 {
		crossCap = d.CrossCap
	}
	first := map[string]string{}
	firstAt := map[string]int{}
	repeatsNonAdjacent := 0
	caseSeen := map[uint64]bool{}
	task := func() {
		for i := range d.Tasks[0] {
			op := &d.Tasks[0][i]
			var result string
			switch op.K {
			case "twin":
				ctx.tick(op)
				p, origin, ok := ctx.operand(op)
				if !ok {
					result = "skip"
					break
				}
				s := ctx.slot(op.Obj)
				result = guard(func() string {
					// same decodes and assignments, but none of the queries
					tw := s.rebuild()
					var q any
					if op.LB {
						q = tw.recv
					} else {
						q = tw.res
					}
					if isNilObj(q) != isNilObj(p) {
						res.addViolation("aged-vs-twin:"+kindNames[s.kind], fmt.Sprintf("%s: fresh twin nil=%v, aged object nil=%v", origin, isNilObj(q), isNilObj(p)), 0, i)
						return "twin:differs"
					}
					if errClass(tw.err) != errClass(s.err) {
						res.addViolation("history:dec", fmt.Sprintf("%s: decode error now %s, earlier %s", origin, errClass(tw.err), errClass(s.err)), 0, i)
					}
					if isNilObj(p) {
						return "twin:nil"
					}
					// the twin is queried in the opposite order: a query that leaves something
					// behind for the next one (a memo, a normalised field) then shows at once
					a, b := snapshot(p)+"\n"+observeAll(p), snapshot(q)+"\n"+observeAllOrder(q, true)
					if a != b {
						res.addViolation("aged-vs-twin:"+kindNames[s.kind], fmt.Sprintf("%s: aged object and freshly decoded twin differ:\naged: %s\ntwin: %s", origin, clip(a, 700), clip(b, 700)), 0, i)
						return "twin:differs"
					}
					res.Stats.count("twin-checks")
					return "twin:equal"
				})
			default:
				key, hasKey := ctx.opKey(op)
				var target any
				var before string
				if op.K == "redec" || op.K == "set" {
					res.Stats.count("state-changes-" + op.K)
				}
				if op.K == "obs" || op.K == "rep" || op.K == "snap" {
					if p, _, ok := ctx.operand(op); ok && !isNilObj(p) {
						target = p
						before = snapshot(p)
					}
				}
				result = maskAddrs(ctx.execOp(op))
				if target != nil {
					if after := snapshot(target); after != before {
						what := op.K
						if op.K == "obs" {
							what = op.Obs
						}
						res.addViolation("mutated:"+kindNames[kindOf(target)]+"."+what, fmt.Sprintf("%s changed the object:\nbefore: %s\nafter:  %s", what, clip(before, 600), clip(after, 600)), 0, i)
					}
					res.Stats.count("mutation-checks")
				}
				if hasKey && result != "skip" {
					if prev, ok := first[key]; ok {
						if firstAt[key] < i-1 {
							repeatsNonAdjacent++
						}
						if prev != result {
							res.addViolation("history:"+op.K, fmt.Sprintf("same operation, different result.\nkey: %s\nfirst (op %d): %s\nnow   (op %d): %s", clip(key, 400), firstAt[key], clip(prev, 600), i, clip(result, 600)), 0, i)
						}
						res.Stats.count("repeat-checks")
					} else {
						first[key] = result
						firstAt[key] = i
						if len(res.Stats.CrossKeys) < crossCap {
							res.Stats.CrossKeys = append(res.Stats.CrossKeys, [2]uint64{hashString(key), hashString(result)})
							if crossVerbose {
								res.Stats.CrossDetail = append(res.Stats.CrossDetail, [3]string{fmt.Sprint(hashString(key)), clip(key, 500), clip(result, 900)})
							}
						}
					}
					// distinct (state class, observer) pairs
					if op.K == "obs" {
						s := ctx.slot(op.Obj)
						cls := fmt.Sprintf("%s|lb=%v|ok=%v|%s", kindNames[s.kind], op.LB, s.err == nil, op.Obs)
						if h := hashString(cls); !caseSeen[h] {
							caseSeen[h] = true
						}
					}
				}
			}
			simrt.Note(hashString(result))
		}
	}
	sr := simrt.Run(cfg, []func(){task})
	res.FP = sr.FP
	res.Stats.Yields = sr.Yields
	res.Stats.MapRanges = sr.MapRanges
	res.Stats.Fault = ctx.fst
	res.Stats.Ops = d.nOps()
	res.Stats.Tasks = 1
	res.Stats.DecodeOK, res.Stats.DecodeFail = ctx.nOK, ctx.nFail
	res.Stats.Exports, res.Stats.ExportErr = ctx.nExp, ctx.nExpE
	if res.Stats.Counters == nil {
		res.Stats.Counters = map[string]int{}
	}
	res.Stats.Counters["repeats-non-adjacent"] = repeatsNonAdjacent
	if repeatsNonAdjacent > 0 {
		res.Stats.CaseKeys = append(res.Stats.CaseKeys, res.Stats.DescHash)
	}
	if sr.Budget {
		res.Stats.count("yield-budget-exceeded") // informational; a real endless loop ends in the watchdog
	}
	res.Stats.Sample = fmt.Sprintf("history of %d ops, first ops: %v", len(d.Tasks[0]), firstN(d.Tasks[0], 4))
}

func firstN(ops []Op, n int) []string {
	var out []string
	for i := 0; i < len(ops) && i < n; i++ {
		o := ops[i]
		s := o.K
		switch o.K {
		case "dec":
			s += fmt.Sprintf("(%s,%q)", kindNames[o.Kind], clip(o.Vec, 60))
		case "obs":
			s += fmt.Sprintf("(#%d,%s,lb=%v)", o.Obj.I, o.Obs, o.LB)
		case "rep":
			s += fmt.Sprintf("(#%d,%s)", o.Obj.I, langs[o.Lang%len(langs)].name)
		}
		out = append(out, s)
	}
	return out
}
