package main

// c19.go: template export renders faithfully and fails cleanly.

import (
	"bytes"
	"errors"
	"fmt"
	"io"
	"strconv"
	"strings"
	"text/template"

	"github.com/goark/go-cvss/cvsserr"
	"simrt"
)

func genC19(d *RunDesc, tier string) {
	wl := newRng(simrt.Mix(d.Seed, 1))
	fl := newRng(simrt.Mix(d.Seed, 4))
	d.MapSeed = simrt.Mix(d.Seed, 3)
	d.MapPolicy = []int{simrt.MapCanonical, simrt.MapReversed, simrt.MapPermuted, simrt.MapPermuted}[wl.intn(4)]
	d.Sched.Policy = simrt.PolicyNone
	var ops []Op
	nRep := wl.between(1, 3)
	type repInfo struct{ slot, level int }
	var reps []repInfo
	slot := 1
	for i := 0; i < nRep; i++ {
		k := wl.intn(3) // v3 only: reports exist for v3
		v, _ := genValidVector(wl, k)
		ops = append(ops, Op{K: "dec", Kind: k, NilRecv: wl.chance(1, 2), Vec: v, Dst: slot})
		ops = append(ops, Op{K: "rep", Obj: &Ref{I: slot}, Lang: wl.intn(len(langs)), Dst: slot + 1})
		reps = append(reps, repInfo{slot + 1, k})
		slot += 2
	}
	nT := wl.between(2, 6)
	if tier == "thorough" {
		nT = wl.between(3, 10)
	}
	for i := 0; i < nT; i++ {
		ri := pick(wl, reps)
		lvl := ri.level
		if wl.chance(1, 8) {
			lvl = wl.intn(3) // a template written for another level
		}
		t, class, _ := genTemplate(wl, lvl)
		if wl.chance(1, 8) {
			// pad to a length at or next to a typical buffer boundary
			t = padTemplate(wl, t)
			class += "+padded"
		}
		op := Op{K: "exp", Rep: &Ref{I: ri.slot}, Tmpl: t, Class: class, Sweep: true}
		f := genFault(fl, len(t), false)
		op.Fault = &f
		ops = append(ops, op)
		// and one drawn failing script (also for templates too long to sweep)
		op2 := Op{K: "exp", Rep: &Ref{I: ri.slot}, Tmpl: t, Class: class, Via: "rd"}
		f2 := genFault(fl, len(t), true)
		op2.Fault = &f2
		ops = append(ops, op2)
	}
	for lvl := 0; lvl < 3; lvl++ {
		t, class, _ := genTemplate(wl, lvl)
		f := genFault(fl, len(t), true)
		ops = append(ops, Op{K: "nilrep", Kind: lvl, Tmpl: t, Class: class, Fault: &f})
	}
	d.Tasks = [][]Op{ops}
}

// padTemplate lengthens a template, without changing what it renders apart from
// the padding itself, to a size at or next to a power-of-two buffer boundary.
func padTemplate(r *rng, t string) string {
	targets := []int{511, 512, 513, 1023, 1024, 1025, 2048, 4095, 4096, 4097, 8191, 8192, 8193, 16384, 32767, 32768, 32769, 65535, 65536, 65537}
	n := pick(r, targets)
	if len(t) >= n {
		return t
	}
	need := n - len(t)
	switch r.intn(3) {
	case 0: // literal text in front
		return strings.Repeat("x", need) + t
	case 1: // a comment action in front (renders nothing)
		if need >= 9 {
			return "{{/*" + strings.Repeat("c", need-8) + "*/}}" + t
		}
		return strings.Repeat(" ", need) + t
	default: // literal text behind, ending in a newline
		return t + strings.Repeat("y", need-1) + "\n"
	}
}

// refRender: text/template itself, under a harness-chosen name, over the same
// report value.
func refRender(rep any, text string) (out string, err error, stage string) {
	t, err := template.New("verif-reference").Parse(text)
	if err != nil {
		return "", err, "parse"
	}
	var buf bytes.Buffer
	if err := t.Execute(&buf, rep); err != nil {
		return buf.String(), err, "exec"
	}
	return buf.String(), nil, ""
}

type expCheck struct {
	res  *RunResult
	task int
	op   int
	// deferred reads: a returned reader is only read after further exports have
	// happened, so that a reader aliasing recycled memory shows
	pending *[]pendingRead
	deferRd bool
}

type pendingRead struct {
	rd   io.Reader
	want string
	what string
	tmpl string
	op   int
}

func drainPending(res *RunResult, pend *[]pendingRead) {
	for _, p := range *pend {
		out, _ := readAllReader(p.rd)
		res.Stats.count("deferred-reads")
		if out != p.want {
			res.addViolation("export:output-mismatch:"+p.what+":deferred-read", fmt.Sprintf("%s: the returned reader was read only after later exports and yields %s; text/template=%s template=%s", p.what, strconv.Quote(clip(out, 400)), strconv.Quote(clip(p.want, 400)), strconv.Quote(clip(p.tmpl, 400))), 0, p.op)
		}
	}
	*pend = (*pend)[:0]
}

func readAllReader(rd io.Reader) (string, bool) {
	if rd == nil || isNilReader(rd) {
		return "", false
	}
	b, _ := io.ReadAll(rd)
	// one more Read after the end: legal (it keeps returning 0, io.EOF) and what a
	// caller polling a reader does; a result that releases resources on EOF must
	// cope with it
	var one [8]byte
	if n, _ := rd.Read(one[:]); n > 0 {
		b = append(b, one[:n]...)
	}
	return string(b), true
}

// checkClean: the "fails cleanly" clause.  want lists acceptable sentinels.
func (c *expCheck) checkClean(what string, tmpl string, rd io.Reader, err error, want ...error) bool {
	detail := what
	if i := strings.IndexByte(what, '@'); i >= 0 {
		what = what[:i] // signatures do not carry the offset
	}
	if err == nil {
		out, _ := readAllReader(rd)
		c.res.addViolation("export:no-error:"+what, fmt.Sprintf("%s: no error returned; output=%s template=%s", detail, strconv.Quote(clip(out, 300)), strconv.Quote(clip(tmpl, 400))), c.task, c.op)
		return false
	}
	ok := false
	for _, w := range want {
		if errors.Is(err, w) {
			ok = true
		}
	}
	if !ok {
		c.res.addViolation("export:wrong-sentinel:"+what, fmt.Sprintf("%s: error %q does not match the expected sentinel; template=%s", detail, err.Error(), strconv.Quote(clip(tmpl, 400))), c.task, c.op)
		return false
	}
	if out, has := readAllReader(rd); has && len(out) > 0 {
		c.res.addViolation("export:output-with-error:"+what, fmt.Sprintf("%s: error %q but a reader with %d bytes %s was returned; template=%s", detail, err.Error(), len(out), strconv.Quote(clip(out, 200)), strconv.Quote(clip(tmpl, 400))), c.task, c.op)
		return false
	}
	return true
}

// checkFaithful: the "renders faithfully" clause against the reference.
func (c *expCheck) checkFaithful(what, tmpl string, rd io.Reader, err error, refOut string, refErr error, refStage string) bool {
	if refErr != nil {
		return c.checkClean(what+":invalid-"+refStage, tmpl, rd, err, cvsserr.ErrInvalidTemplate)
	}
	if err != nil {
		c.res.addViolation("export:error-on-valid:"+what, fmt.Sprintf("%s: text/template renders this template but export returned %q; template=%s", what, err.Error(), strconv.Quote(clip(tmpl, 400))), c.task, c.op)
		return false
	}
	if c.deferRd && c.pending != nil && rd != nil && !isNilReader(rd) {
		*c.pending = append(*c.pending, pendingRead{rd: rd, want: refOut, what: what, tmpl: tmpl, op: c.op})
		return true
	}
	out, has := readAllReader(rd)
	if !has {
		c.res.addViolation("export:nil-reader-on-valid:"+what, fmt.Sprintf("%s: nil reader and nil error; template=%s", what, strconv.Quote(clip(tmpl, 400))), c.task, c.op)
		return false
	}
	if out != refOut {
		c.res.addViolation("export:output-mismatch:"+what, fmt.Sprintf("%s: export=%s text/template=%s template=%s", what, strconv.Quote(clip(out, 400)), strconv.Quote(clip(refOut, 400)), strconv.Quote(clip(tmpl, 400))), c.task, c.op)
		return false
	}
	return true
}

const sweepMaxLen = 256

func runC19(d *RunDesc, res *RunResult) {
	cfg := d.simConfig()
	ctx := newTaskCtx(nil)
	caseSeen := map[uint64]bool{}
	addCase := func(s string) {
		h := hashString(s)
		if !caseSeen[h] {
			caseSeen[h] = true
			res.Stats.CaseKeys = append(res.Stats.CaseKeys, h)
		}
	}
	var pending []pendingRead
	task := func() {
		for i := range d.Tasks[0] {
			op := &d.Tasks[0][i]
			// readers returned during the previous operation are read at the end of
			// this one; every second export operation defers its reads
			carried := len(pending)
			chk := &expCheck{res: res, task: 0, op: i, pending: &pending, deferRd: i%2 == 1}
			if op.K != "dec" && op.K != "rep" {
				ctx.tick(op)
			}
			r := guard(func() string {
				switch op.K {
				case "dec", "rep":
					return ctx.execOp(op)
				case "exp":
					rs := ctx.repSlot(op.Rep)
					if rs == nil {
						return "skip"
					}
					ex := rs.rep.(exporter)
					refOut, refErr, refStage := refRender(rs.rep, op.Tmpl)
					verdict := "ok"
					if refErr != nil {
						verdict = "invalid-" + refStage
						res.Stats.count("tmpl-invalid-" + refStage)
						if refStage == "exec" && len(refOut) > 0 {
							res.Stats.count("tmpl-exec-error-after-output")
						}
					} else {
						res.Stats.count("tmpl-valid")
					}
					res.Stats.Exports++
					if op.Via != "rd" {
						// string path
						rd, err := ex.ExportWithString(op.Tmpl)
						chk.checkFaithful("string", op.Tmpl, rd, err, refOut, refErr, refStage)
					}
					// reader path with the drawn script
					f := Fault{ErrAt: -1}
					if op.Fault != nil {
						f = *op.Fault
					}
					before := ctx.fst
					rd, err := ex.ExportWith(newSimReader(op.Tmpl, f, &ctx.fst))
					res.Stats.Exports++
					fired := ctx.fst.ErrFired > before.ErrFired
					switch {
					case f.Nil:
						chk.checkClean("nil-reader", op.Tmpl, rd, err, cvsserr.ErrInvalidTemplate)
						addCase("nilreader|" + verdict)
					case f.ErrAt >= 0:
						if !fired {
							// the library stopped reading before the failure offset: legal
							// in itself, the clean-failure clause below still applies
							res.Stats.count("fault-not-reached")
						}
						chk.checkClean("failing-reader", op.Tmpl, rd, err, cvsserr.ErrInvalidTemplate)
						addCase(fmt.Sprintf("fail|%s|wd=%v|wt=%v|k=%d|%s", verdict, f.ErrWithData, f.WriterTo, f.ErrKind, op.Class))
					default:
						chk.checkFaithful("reader", op.Tmpl, rd, err, refOut, refErr, refStage)
						addCase(fmt.Sprintf("benign|%s|chunks=%d|eofwd=%v|wt=%v|%s", verdict, len(f.Chunks), f.EOFWithData, f.WriterTo, op.Class))
					}
					// complete sweep of the failure offset
					if op.Sweep {
						n := len(op.Tmpl)
						step := 1
						if n > sweepMaxLen {
							step = n/16 + 1
							res.Stats.count("sweep-sampled")
						} else {
							res.Stats.count("sweep-complete")
						}
						var ks []int
						for k := 0; k <= n; k += step {
							ks = append(ks, k)
						}
						if step > 1 {
							// sampled sweep: also the offsets at and next to buffer boundaries, and the end
							for b := 512; b <= n+1 && len(ks) < 120; b *= 2 {
								for _, k := range []int{b - 1, b, b + 1} {
									if k >= 0 && k <= n {
										ks = append(ks, k)
									}
								}
							}
							ks = append(ks, n-1, n)
						}
						for _, k := range ks {
							for wd := 0; wd < 4; wd++ {
								// error alone / with data; sticky / transient.  A complete sweep
								// (small template) alternates stickiness, a sampled one does both.
								if wd >= 2 && step == 1 {
									break
								}
								tr := wd >= 2
								if step == 1 {
									tr = (k/2)%2 == 1
								}
								sf := Fault{ErrAt: k, ErrKind: (k + wd) % len(injectedErrors), ErrWithData: wd%2 == 1, WriterTo: k%5 == 4 && wd < 2, Transient: tr}
								if n > 2048 {
									// large template: no bytewise delivery (cost), buffer-sized chunks instead
									switch k % 4 {
									case 1:
										sf.Chunks = []int{512}
									case 2:
										sf.Chunks = []int{97, 0, 4096}
									case 3:
										sf.Chunks = []int{4096}
									}
								} else {
									switch k % 4 {
									case 1:
										sf.Chunks = []int{1}
									case 2:
										sf.Chunks = []int{3, 0, 2}
									case 3:
										sf.Chunks = []int{7}
									}
								}
								rd, err := ex.ExportWith(newSimReader(op.Tmpl, sf, &ctx.fst))
								res.Stats.Exports++
								res.Stats.count("sweep-exports")
								if !chk.checkClean(fmt.Sprintf("failing-reader@%d", k), op.Tmpl, rd, err, cvsserr.ErrInvalidTemplate) {
									return "violation"
								}
							}
						}
						// is some proper prefix itself a valid template?  (the torn-read case)
						if n <= sweepMaxLen {
							for k := 0; k < n; k++ {
								if _, perr := template.New("p").Parse(op.Tmpl[:k]); perr == nil {
									res.Stats.count("sweep-prefix-parses")
									break
								}
							}
						}
					}
					return "exp:" + verdict
				case "nilrep":
					nr := nilReport(op.Kind).(exporter)
					rd, err := nr.ExportWithString(op.Tmpl)
					chk.checkClean("nil-report-string", op.Tmpl, rd, err, cvsserr.ErrNullPointer)
					rd, err = nr.ExportWith(newSimReader(op.Tmpl, Fault{ErrAt: -1, Chunks: []int{2}}, &ctx.fst))
					chk.checkClean("nil-report-reader", op.Tmpl, rd, err, cvsserr.ErrNullPointer)
					f := Fault{ErrAt: -1}
					if op.Fault != nil {
						f = *op.Fault
					}
					rd, err = nr.ExportWith(newSimReader(op.Tmpl, f, &ctx.fst))
					if f.willFail() {
						chk.checkClean("nil-report-failing-reader", op.Tmpl, rd, err, cvsserr.ErrNullPointer, cvsserr.ErrInvalidTemplate)
					} else {
						chk.checkClean("nil-report-reader2", op.Tmpl, rd, err, cvsserr.ErrNullPointer)
					}
					rd, err = nr.ExportWith(nil)
					chk.checkClean("nil-report-nil-reader", op.Tmpl, rd, err, cvsserr.ErrNullPointer, cvsserr.ErrInvalidTemplate)
					res.Stats.Exports += 4
					res.Stats.count("nil-report")
					addCase(fmt.Sprintf("nilrep|%d", op.Kind))
					return "nilrep"
				}
				return "skip"
			})
			if isDeadlock(r) {
				res.addViolation("deadlock:"+op.K+":"+panicFrame(r), fmt.Sprintf("the export never returns (text/template itself renders or rejects this template). %s; template=%s", r, strconv.Quote(clip(op.Tmpl, 400))), 0, i)
			} else if isPanic(r) {
				res.addViolation("panic:"+op.K+":"+panicFrame(r), fmt.Sprintf("%s; template=%s", r, strconv.Quote(clip(op.Tmpl, 400))), 0, i)
			}
			if carried > 0 {
				old := append([]pendingRead{}, pending[:carried]...)
				rest := append([]pendingRead{}, pending[carried:]...)
				drainPending(res, &old)
				pending = rest
			}
			simrt.Note(hashString(r))
		}
		drainPending(res, &pending)
	}
	sr := simrt.Run(cfg, []func(){task})
	res.FP = sr.FP
	res.Stats.Yields = sr.Yields
	res.Stats.MapRanges = sr.MapRanges
	res.Stats.Fault = ctx.fst
	res.Stats.Ops = d.nOps()
	res.Stats.Tasks = 1
	res.Stats.DecodeOK, res.Stats.DecodeFail = ctx.nOK, ctx.nFail
	if sr.Budget {
		res.Stats.count("yield-budget-exceeded") // informational; a real endless loop ends in the watchdog
	}
	for i := range d.Tasks[0] {
		if d.Tasks[0][i].K == "exp" {
			res.Stats.Sample = fmt.Sprintf("template(%s)=%s fault=%+v", d.Tasks[0][i].Class, strconv.Quote(clip(d.Tasks[0][i].Tmpl, 300)), *d.Tasks[0][i].Fault)
			break
		}
	}
}
