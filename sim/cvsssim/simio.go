package main

// simio.go: the simulated io.Reader handed to ExportWith, driven by an explicit
// fault script.  Every Read / WriteTo call is a scheduler yield point.

import (
	"bufio"
	"bytes"
	"context"
	"errors"
	"fmt"
	"io"
	"strings"
	"testing/iotest"

	"github.com/goark/go-cvss/cvsserr"
	"simrt"
)

// Fault is the script of one simulated reader.
type Fault struct {
	Nil         bool  `json:"nil,omitempty"`           // hand the untyped nil io.Reader
	Chunks      []int `json:"chunks,omitempty"`        // chunk sizes, cyclic; 0 = stall (0,nil); empty = everything at once
	EOFWithData bool  `json:"eof_with_data,omitempty"` // final chunk is returned together with io.EOF
	ErrAt       int   `json:"err_at"`                  // -1: no error; k: after exactly k bytes were delivered, fail
	ErrKind     int   `json:"err_kind,omitempty"`      // index into injectedErrors
	ErrWithData bool  `json:"err_with_data,omitempty"` // the error accompanies the chunk that ends at offset k
	WriterTo    bool  `json:"writer_to,omitempty"`     // reader also implements io.WriterTo
	Transient   bool  `json:"transient,omitempty"`     // the error is returned once; later calls carry on delivering data
	// Std > 0: not the scripted reader but a standard-library reader over the same
	// content (benign only): 1 strings.Reader, 2 bytes.Reader, 3 bytes.Buffer,
	// 4 io.SectionReader, 5 bufio.Reader, 6 io.MultiReader of two halves,
	// 7 io.LimitReader over content+junk, 8 strings.Reader with a consumed prefix,
	// 9 bytes.Reader after Seek past a prefix, 10 iotest.OneByteReader,
	// 11 iotest.DataErrReader, 12 iotest.HalfReader
	Std int `json:"std,omitempty"`
}

type injected struct{ msg string }

func (e *injected) Error() string { return e.msg }

var errInjected = &injected{"simio: injected read failure"}

var injectedErrors = []error{
	errInjected,
	io.ErrUnexpectedEOF,
	io.ErrClosedPipe,
	context.Canceled,
	cvsserr.ErrNullPointer, // an error that *is* another sentinel of the library
	errors.New("EINTR"),
	io.ErrNoProgress,
	fmt.Errorf("connection reset while reading the template: %w", io.EOF), // wraps io.EOF without being it
}

var injectedErrorNames = []string{"own", "unexpected-eof", "closed-pipe", "canceled", "other-sentinel", "eintr", "no-progress", "wrapped-eof"}

// faultStats counts what actually fired.
type faultStats struct {
	Reads, Stalls, ShortChunks, EOFWithData, ErrFired, ErrWithData, WriterToCalls, WriterToShort, NilReader, OneByte, StdReaders uint64
	ErrKinds                                                                                                                     [8]uint64
}

func (a *faultStats) add(b *faultStats) {
	a.Reads += b.Reads
	a.Stalls += b.Stalls
	a.ShortChunks += b.ShortChunks
	a.EOFWithData += b.EOFWithData
	a.ErrFired += b.ErrFired
	a.ErrWithData += b.ErrWithData
	a.WriterToCalls += b.WriterToCalls
	a.WriterToShort += b.WriterToShort
	a.NilReader += b.NilReader
	a.OneByte += b.OneByte
	a.StdReaders += b.StdReaders
	for i := range a.ErrKinds {
		a.ErrKinds[i] += b.ErrKinds[i]
	}
}

type simReader struct {
	data   []byte
	off    int
	f      Fault
	ci     int
	stalls int
	failed bool
	st     *faultStats
}

func (r *simReader) err() error { return injectedErrors[r.f.ErrKind%len(injectedErrors)] }

func (r *simReader) nextChunk() int {
	if len(r.f.Chunks) == 0 {
		return len(r.data) - r.off
	}
	c := r.f.Chunks[r.ci%len(r.f.Chunks)]
	r.ci++
	return c
}

func (r *simReader) Read(p []byte) (int, error) {
	simrt.Yield(simrt.SiteIO + 1)
	r.st.Reads++
	if r.failed && !r.f.Transient {
		return 0, r.err()
	}
	if len(p) == 0 {
		return 0, nil
	}
	limit := len(r.data)
	if r.f.ErrAt >= 0 && r.f.ErrAt < limit {
		limit = r.f.ErrAt
	}
	if r.failed && r.f.Transient {
		// the one error has been delivered: carry on as a healthy reader
		limit = len(r.data)
	} else if r.f.ErrAt >= 0 && r.off >= limit && r.off >= min(r.f.ErrAt, len(r.data)) {
		// exactly ErrAt bytes (or everything, when ErrAt >= len) delivered
		r.failed = true
		r.st.ErrFired++
		r.st.ErrKinds[r.f.ErrKind%len(injectedErrors)]++
		return 0, r.err()
	}
	if r.off >= len(r.data) {
		return 0, io.EOF
	}
	c := r.nextChunk()
	if c == 0 {
		r.stalls++
		if r.stalls <= 8 {
			r.st.Stalls++
			return 0, nil
		}
		c = 1
	}
	n := min(c, len(p), limit-r.off)
	if n < len(r.data)-r.off {
		r.st.ShortChunks++
		if n == 1 {
			r.st.OneByte++
		}
	}
	copy(p, r.data[r.off:r.off+n])
	r.off += n
	if !r.failed && r.f.ErrAt >= 0 && r.off >= limit && r.f.ErrWithData && n > 0 {
		r.failed = true
		r.st.ErrFired++
		r.st.ErrWithData++
		r.st.ErrKinds[r.f.ErrKind%len(injectedErrors)]++
		return n, r.err()
	}
	if r.off >= len(r.data) && (r.f.ErrAt < 0 || r.failed) && r.f.EOFWithData {
		r.st.EOFWithData++
		return n, io.EOF
	}
	return n, nil
}

// simReaderWT additionally offers the io.WriterTo fast path of io.Copy.
type simReaderWT struct{ simReader }

func (r *simReaderWT) WriteTo(w io.Writer) (int64, error) {
	simrt.Yield(simrt.SiteIO + 2)
	r.st.WriterToCalls++
	var total int64
	limit := len(r.data)
	if r.f.ErrAt >= 0 && r.f.ErrAt < limit {
		limit = r.f.ErrAt
	}
	for r.off < limit {
		c := r.nextChunk()
		if c <= 0 {
			c = 1
		}
		n := min(c, limit-r.off)
		m, err := w.Write(r.data[r.off : r.off+n])
		total += int64(m)
		r.off += m
		if err != nil {
			return total, err
		}
		simrt.Yield(simrt.SiteIO + 3)
	}
	if r.f.ErrAt >= 0 {
		r.failed = true
		r.st.ErrFired++
		r.st.WriterToShort++
		r.st.ErrKinds[r.f.ErrKind%len(injectedErrors)]++
		return total, r.err()
	}
	return total, nil
}

// newSimReader builds the reader for a script; nil script field Nil gives the
// untyped nil io.Reader.
func newSimReader(data string, f Fault, st *faultStats) io.Reader {
	if f.Nil {
		st.NilReader++
		return nil
	}
	if f.Std > 0 {
		st.StdReaders++
		return stdReader(data, f.Std)
	}
	sr := simReader{data: []byte(data), f: f, st: st}
	if f.WriterTo {
		return &simReaderWT{sr}
	}
	return &sr
}

// stdReader: readers from the standard library over the same content.
func stdReader(data string, kind int) io.Reader {
	const junk = "JUNK-PREFIX\n"
	switch kind {
	case 1:
		return strings.NewReader(data)
	case 2:
		return bytes.NewReader([]byte(data))
	case 3:
		return bytes.NewBufferString(data)
	case 4:
		return io.NewSectionReader(strings.NewReader(junk+data+junk), int64(len(junk)), int64(len(data)))
	case 5:
		return bufio.NewReaderSize(strings.NewReader(data), 16)
	case 6:
		h := len(data) / 2
		return io.MultiReader(strings.NewReader(data[:h]), strings.NewReader(data[h:]))
	case 7:
		return io.LimitReader(strings.NewReader(data+junk), int64(len(data)))
	case 8:
		r := strings.NewReader(junk + data)
		_, _ = io.CopyN(io.Discard, r, int64(len(junk)))
		return r
	case 9:
		r := bytes.NewReader([]byte(junk + data))
		_, _ = r.Seek(int64(len(junk)), io.SeekStart)
		return r
	case 10:
		return iotest.OneByteReader(strings.NewReader(data))
	case 11:
		return iotest.DataErrReader(strings.NewReader(data))
	default:
		return iotest.HalfReader(strings.NewReader(data))
	}
}

const nStdReaders = 12

// willFail reports whether the script makes the read of data fail.
func (f Fault) willFail() bool { return f.Nil || f.ErrAt >= 0 }

// genFault draws a fault script for a template of length n.  errOK=false draws
// only benign scripts (chunking, stalls, EOF conventions).
func genFault(r *rng, n int, errOK bool) Fault {
	f := Fault{ErrAt: -1}
	if !errOK && r.chance(1, 5) || errOK && r.chance(1, 12) {
		f.Std = r.between(1, nStdReaders)
		return f
	}
	switch r.intn(6) {
	case 0:
		// all at once
	case 1:
		f.Chunks = []int{1}
	case 2:
		k := r.between(1, 4)
		for i := 0; i < k; i++ {
			f.Chunks = append(f.Chunks, r.between(1, 7))
		}
	case 3:
		k := r.between(2, 5)
		for i := 0; i < k; i++ {
			f.Chunks = append(f.Chunks, r.intn(4)) // includes stalls
		}
	case 4:
		f.Chunks = []int{r.between(1, 3), 0, 0, 1}
	default:
		f.Chunks = []int{r.between(8, 600)}
		if r.chance(1, 3) {
			// as much as the caller asks for, or a typical buffer size
			f.Chunks = []int{pick(r, []int{512, 1024, 4096, 8192, 65536, 1 << 20})}
		}
	}
	f.EOFWithData = r.chance(1, 3)
	f.WriterTo = r.chance(1, 4)
	if errOK && r.chance(1, 2) {
		f.ErrAt = r.intn(n + 1)
		f.ErrKind = r.intn(len(injectedErrors))
		f.ErrWithData = r.chance(1, 3)
		f.Transient = r.chance(1, 4)
	}
	if errOK && r.chance(1, 25) {
		f = Fault{Nil: true, ErrAt: -1}
	}
	return f
}
