package main

import (
	"os"
	"os/exec"
	"path/filepath"
	"strings"
	"testing"
)

// TestTorture instruments testdata/torture and checks that the copy builds and
// behaves like the original.
func TestTorture(t *testing.T) {
	tmp := t.TempDir()
	run := func(dir string, name string, args ...string) string {
		cmd := exec.Command(name, args...)
		cmd.Dir = dir
		cmd.Env = append(os.Environ(), "GOFLAGS=-mod=mod", "GOPROXY=off", "GOSUMDB=off", "GOTOOLCHAIN=local")
		out, err := cmd.CombinedOutput()
		if err != nil {
			t.Fatalf("%s %v in %s: %v\n%s", name, args, dir, err, out)
		}
		return string(out)
	}
	src, _ := filepath.Abs("testdata/torture")
	simrt, _ := filepath.Abs("../simrt")
	run(".", "cp", "-r", src, filepath.Join(tmp, "plain"))
	run(".", "cp", "-r", src, filepath.Join(tmp, "inst"))
	bin := filepath.Join(tmp, "cvssinst")
	run(".", "go", "build", "-o", bin, ".")
	out := run(".", bin, "-dir", filepath.Join(tmp, "inst"), "-sites", filepath.Join(tmp, "sites.json"), "-simrt", simrt)
	t.Log(strings.TrimSpace(out))
	want := run(filepath.Join(tmp, "plain"), "go", "run", ".")
	got := run(filepath.Join(tmp, "inst"), "go", "run", ".")
	if want != got {
		t.Fatalf("instrumented copy behaves differently:\nplain: %s\ninst:  %s", want, got)
	}
	gotRace := run(filepath.Join(tmp, "inst"), "go", "run", "-race", ".")
	if want != gotRace {
		t.Fatalf("instrumented copy (race build) behaves differently:\nplain: %s\ninst:  %s", want, gotRace)
	}
	for _, need := range []string{"lock shims", "once shims", "channel shims", "select shims", "waitgroup shims"} {
		if !strings.Contains(out, need) {
			t.Errorf("instrumenter summary lacks %q", need)
		}
	}
}
