module cvssinst

go 1.23
