module torture

go 1.23
