// Package main is a torture input for cvssinst: many statement forms, labels,
// gotos, selects, closures, generics, map ranges, mutexes, onces, channels.
// The instrumented copy must build and print exactly what the original prints.
package main

import (
	"fmt"
	"sort"
	"strings"
	"sync"
	"time"
)

type kind int

const (
	kA kind = iota
	kB
	kC
)

var names = map[kind]string{kA: "a", kB: "b", kC: "c"}

type named map[string]int

var (
	mu    sync.Mutex
	rw    sync.RWMutex
	once  sync.Once
	table map[string]int
)

type box struct {
	sync.Mutex
	n int
}

func lookup(s string) kind {
	for k, v := range names {
		if v == s {
			return k
		}
	}
	return -1
}

func keys[M ~map[K]V, K comparable, V any](m M) []K {
	var out []K
	for k := range m {
		out = append(out, k)
	}
	return out
}

func lazy() map[string]int {
	once.Do(func() {
		table = map[string]int{"x": 1, "y": 2}
	})
	return table
}

func locked(b *box) int {
	b.Lock()
	defer b.Unlock()
	b.n++
	mu.Lock(); v := b.n; mu.Unlock()
	rw.RLock()
	w := v * 2
	rw.RUnlock()
	return w
}

func control(n int) string {
	var sb strings.Builder
outer:
	for i := 0; i < n; i++ {
		switch {
		case i == 1:
			sb.WriteString("one;")
			fallthrough
		case i == 2:
			sb.WriteString("two;")
		case i == 5: sb.WriteString("five;"); continue outer
		default:
			if i%2 == 0 { sb.WriteString("even;") } else if i == 3 {
				sb.WriteString("three;")
			} else {
				break outer
			}
		}
		for j := range 3 {
			if j == 2 {
				continue outer
			}
			sb.WriteString(fmt.Sprint(j))
		}
	}
	i := 0
loop:
	if i < 3 {
		i++
		goto loop
	}
	sb.WriteString(fmt.Sprint(i))
	var x interface{} = n
	switch v := x.(type) {
	case int:
		sb.WriteString(fmt.Sprintf("int%d", v))
	case string:
		sb.WriteString("str")
	}
	func() {
		defer func() {
			if r := recover(); r != nil {
				sb.WriteString("recovered;")
			}
		}()
		var p *box
		_ = p.n
	}()
	return sb.String()
}

func channels() string {
	ch := make(chan int, 1)
	done := make(chan struct{})
	res := make(chan string)
	go func() {
		v, ok := <-ch
		<-done
		res <- fmt.Sprint(v, ok)
	}()
	ch <- 7
	close(done)
	s := <-res
	select {
	case ch <- 1:
		s += ";sent"
	default:
		s += ";full"
	}
	select {
	case v := <-ch:
		s += fmt.Sprint(";got", v)
	}
	ch <- 5
	var (
		w, ok2 = <-ch, true
	)
	ch <- 6
	v3, ok3 := <-ch
	return s + fmt.Sprint(";", w, ok2, v3, ok3)
}

type queue struct {
	mu    sync.Mutex
	cond  *sync.Cond
	vcond sync.Cond
	items []int
}

func condDemo() string {
	q := &queue{}
	q.cond = sync.NewCond(&q.mu)
	q.vcond.L = &q.mu
	done := make(chan int)
	go func() {
		q.mu.Lock()
		for len(q.items) == 0 {
			q.cond.Wait()
		}
		v := q.items[0]
		q.mu.Unlock()
		done <- v
	}()
	q.mu.Lock()
	q.items = append(q.items, 42)
	q.cond.Signal()
	q.cond.Broadcast()
	q.vcond.Broadcast()
	q.mu.Unlock()
	return fmt.Sprint(<-done)
}

func clock() string {
	t0 := time.Now()
	time.Sleep(0)
	d := time.Since(t0)
	select {
	case <-time.After(time.Microsecond):
	}
	return fmt.Sprint(d >= 0, time.Until(t0) <= 0)
}

type flight struct {
	sync.WaitGroup
	val int
}

func selectsAndGroups() string {
	var wg sync.WaitGroup
	pw := &sync.WaitGroup{}
	fl := &flight{}
	out := make(chan int, 8)
	quit := make(chan struct{})
	for i := 0; i < 3; i++ {
		wg.Add(1)
		pw.Add(1)
		go func(i int) {
			defer wg.Done()
			defer pw.Done()
			out <- i
		}(i)
	}
	fl.Add(1)
	go func() { fl.val = 9; fl.Done() }()
	wg.Wait()
	pw.Wait()
	fl.Wait()
	close(out)
	sum, loops := fl.val, 0
outer:
	for {
		loops++
	sel:
		select {
		case v, ok := <-out:
			if !ok {
				close(quit)
				out = nil
				continue outer
			}
			if v == 1 {
				break sel
			}
			if v == 2 {
				break
			}
			sum += 10
		case <-quit:
			break outer
		}
		sum += 100
	}
	feed := make(chan int, 3)
	var ro <-chan int = feed
	feed <- 1
	feed <- 2
	close(feed)
	for v := range ro {
		sum += v
	}
	for range feed {
		sum += 1000
	}
	calls := 0
	mk := func() chan int64 { calls++; return make(chan int64, 1) }
	val := func() int64 { calls += 10; return 7 }
	big := mk()
	big <- 1
	select {
	case big <- 5:
		sum += 5
	case mk() <- val():
		sum += 7
	case <-time.After(time.Hour):
		sum += 100000
	}
	sum += calls
	var s string
	tick := time.NewTimer(time.Millisecond)
	select {
	case <-tick.C:
		s = "tick"
	case <-make(chan int):
		s = "never"
	}
	return fmt.Sprint(sum, loops, s)
}

func seq(yield func(int) bool) {
	for i := 0; i < 3; i++ {
		if !yield(i) {
			return
		}
	}
}

func main() {
	fmt.Println(lookup("b"), lookup("z"))
	ks := keys(named{"q": 1, "r": 2})
	sort.Strings(ks)
	fmt.Println(ks, len(lazy()), lazy()["y"])
	b := &box{}
	fmt.Println(locked(b), locked(b))
	fmt.Println(control(7))
	fmt.Println(channels())
	fmt.Println(clock())
	fmt.Println(condDemo())
	fmt.Println(selectsAndGroups())
	close(func() chan int { c := make(chan int); return c }())
	total := 0
	for v := range seq {
		total += v
	}
	m := map[string][]int{"a": {1}, "b": {2, 3}}
	sum := 0
	for _, vs := range m { for _, v := range vs { sum += v } }
	fmt.Println(total, sum, min(3, 1), max(2, 9))
}
