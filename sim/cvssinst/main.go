// cvssinst instruments a scratch copy of the go-cvss working tree for simulation.
//
// It never touches /repo: it is pointed at a copy.  All rewriting is textual
// insertion at AST positions on the *same line*, so line numbers, comments and
// build constraints of the original source are preserved exactly:
//
//   - `__simrt.Yield(<site>);` before every statement of every block, case clause
//     and comm clause (site ids index a side table written to -sites);
//   - `range X` with X of map type becomes `range __simrt.MapSeq(X)`;
//   - `X.Lock()` / `X.RLock()` on sync.Mutex / sync.RWMutex become
//     `__simrt.Lock(X.TryLock, X.Lock)` (resp. TryRLock/RLock);
//     `X.Do(f)` on sync.Once becomes `__simrt.OnceDo(X.Do, f)`;
//   - the scratch go.mod is bumped to `go 1.23` (range-over-func) and gets a
//     replace directive for the simrt module.
//
// Only stdlib packages are used (go/parser, go/types with gc export data located
// through `go list -export`), so it works offline.
package main

import (
	"bytes"
	"encoding/json"
	"flag"
	"fmt"
	"go/ast"
	"go/importer"
	"go/parser"
	"go/token"
	"go/types"
	"io"
	"os"
	"os/exec"
	"path/filepath"
	"regexp"
	"sort"
	"strings"
)

type listPkg struct {
	Dir        string
	ImportPath string
	Export     string
	GoFiles    []string
	Standard   bool
	Module     *struct {
		Path string
		Main bool
		Dir  string
	}
	Error *struct{ Err string }
}

type site struct {
	ID   int    `json:"id"`
	File string `json:"file"`
	Line int    `json:"line"`
	Col  int    `json:"col"`
	Func string `json:"func"`
	Hot  bool   `json:"hot,omitempty"` // the statement touches package-level state, sync/atomic, or stores through a selector/index
}

type sitesFile struct {
	Module       string   `json:"module"`
	Sites        []site   `json:"sites"`
	MapRanges    int      `json:"map_ranges"`
	MapRangeLocs []string `json:"map_range_locs"`
	LockShims    int      `json:"lock_shims"`
	OnceShims    int      `json:"once_shims"`
	ChanShims    int      `json:"chan_shims"`
	SelectShims  int      `json:"select_shims"`
	WGShims      int      `json:"waitgroup_shims"`
	ClockShims   int      `json:"clock_shims"`
	GoStmts      int      `json:"go_statements"`
	GoStmtLocs   []string `json:"go_statement_locs"`
	HotSites     int      `json:"hot_sites"`
	Files        int      `json:"files"`
	Packages     []string `json:"packages"`
}

type edit struct {
	off  int // byte offset in original
	end  int // off==end: pure insertion; else replace [off,end)
	text string
	seq  int
}

func die(format string, a ...interface{}) {
	fmt.Fprintf(os.Stderr, "cvssinst: "+format+"\n", a...)
	os.Exit(2)
}

func main() {
	dir := flag.String("dir", "", "scratch copy of the repository (module root)")
	sitesOut := flag.String("sites", "", "where to write the site table (JSON)")
	simrtDir := flag.String("simrt", "", "absolute path of the simrt module")
	flag.Parse()
	if *dir == "" || *sitesOut == "" || *simrtDir == "" {
		die("usage: cvssinst -dir <copy> -sites <out.json> -simrt <dir>")
	}
	abs, err := filepath.Abs(*dir)
	if err != nil {
		die("%v", err)
	}

	cmd := exec.Command("go", "list", "-export", "-deps", "-json", "./...")
	cmd.Dir = abs
	cmd.Stderr = os.Stderr
	out, err := cmd.Output()
	if err != nil {
		die("go list failed: %v", err)
	}
	dec := json.NewDecoder(bytes.NewReader(out))
	exports := map[string]string{}
	var mods []listPkg
	for {
		var p listPkg
		if err := dec.Decode(&p); err == io.EOF {
			break
		} else if err != nil {
			die("go list output: %v", err)
		}
		if p.Error != nil {
			die("package %s: %s", p.ImportPath, p.Error.Err)
		}
		if p.Export != "" {
			exports[p.ImportPath] = p.Export
		}
		if p.Module != nil && p.Module.Main {
			mods = append(mods, p)
		}
	}
	if len(mods) == 0 {
		die("no packages of the main module found in %s", abs)
	}

	fset := token.NewFileSet()
	lookup := func(path string) (io.ReadCloser, error) {
		f, ok := exports[path]
		if !ok {
			return nil, fmt.Errorf("no export data for %q", path)
		}
		return os.Open(f)
	}
	imp := importer.ForCompiler(fset, "gc", lookup)

	sf := sitesFile{Module: mods[0].Module.Path}
	nextSite := 1
	nextSelect := 1
	for _, p := range mods {
		sf.Packages = append(sf.Packages, p.ImportPath)
		var files []*ast.File
		var paths []string
		srcs := map[string][]byte{}
		for _, gf := range p.GoFiles {
			full := filepath.Join(p.Dir, gf)
			src, err := os.ReadFile(full)
			if err != nil {
				die("%v", err)
			}
			f, err := parser.ParseFile(fset, full, src, parser.ParseComments|parser.SkipObjectResolution)
			if err != nil {
				die("parse %s: %v", full, err)
			}
			files = append(files, f)
			paths = append(paths, full)
			srcs[full] = src
		}
		info := &types.Info{
			Types:      map[ast.Expr]types.TypeAndValue{},
			Selections: map[*ast.SelectorExpr]*types.Selection{},
			Uses:       map[*ast.Ident]types.Object{},
		}
		conf := types.Config{Importer: imp, Error: func(err error) {}}
		if _, err := conf.Check(p.ImportPath, fset, files, info); err != nil {
			die("type-check %s: %v", p.ImportPath, err)
		}
		for i, f := range files {
			full := paths[i]
			rel, _ := filepath.Rel(abs, full)
			var edits []edit
			seq := 0
			add := func(off, end int, text string) {
				seq++
				edits = append(edits, edit{off, end, text, seq})
			}
			offset := func(p token.Pos) int { return fset.Position(p).Offset }
			curFunc := ""
			// hotExpr: does the expression (without descending into function
			// literals) touch package-level variables or sync / sync/atomic?
			var hotExpr func(e ast.Node) bool
			hotExpr = func(e ast.Node) bool {
				if e == nil {
					return false
				}
				hot := false
				ast.Inspect(e, func(n ast.Node) bool {
					if hot {
						return false
					}
					switch x := n.(type) {
					case *ast.FuncLit:
						return false
					case *ast.BlockStmt:
						return false
					case *ast.Ident:
						if obj, ok := info.Uses[x]; ok {
							if v, ok := obj.(*types.Var); ok && !v.IsField() && v.Pkg() != nil && v.Parent() == v.Pkg().Scope() {
								hot = true
							}
							if fn, ok := obj.(*types.Func); ok && fn.Pkg() != nil && (fn.Pkg().Path() == "sync/atomic" || fn.Pkg().Path() == "sync") {
								hot = true
							}
						}
					case *ast.SelectorExpr:
						if sel, ok := info.Selections[x]; ok {
							if fn, ok := sel.Obj().(*types.Func); ok && fn.Pkg() != nil && (fn.Pkg().Path() == "sync/atomic" || fn.Pkg().Path() == "sync") {
								hot = true
							}
						}
					}
					return true
				})
				return hot
			}
			storesThrough := func(lhs []ast.Expr) bool {
				for _, l := range lhs {
					switch ast.Unparen(l).(type) {
					case *ast.SelectorExpr, *ast.IndexExpr, *ast.StarExpr:
						return true
					}
				}
				return false
			}
			hotStmt := func(st ast.Stmt) bool {
				switch x := st.(type) {
				case *ast.AssignStmt:
					return storesThrough(x.Lhs) || hotExpr(x)
				case *ast.IncDecStmt:
					return storesThrough([]ast.Expr{x.X}) || hotExpr(x)
				case *ast.IfStmt:
					return hotExpr(x.Init) || hotExpr(x.Cond)
				case *ast.ForStmt:
					return hotExpr(x.Init) || hotExpr(x.Cond) || hotExpr(x.Post)
				case *ast.RangeStmt:
					return hotExpr(x.X)
				case *ast.SwitchStmt:
					return hotExpr(x.Init) || hotExpr(x.Tag)
				case *ast.TypeSwitchStmt:
					return hotExpr(x.Init) || hotExpr(x.Assign)
				case *ast.LabeledStmt, *ast.BlockStmt, *ast.SelectStmt:
					return false
				default:
					return hotExpr(st)
				}
			}
			insertYields := func(list []ast.Stmt) {
				for _, s := range list {
					pos := fset.Position(s.Pos())
					id := nextSite
					nextSite++
					h := hotStmt(s)
					if h {
						sf.HotSites++
					}
					sf.Sites = append(sf.Sites, site{ID: id, File: rel, Line: pos.Line, Col: pos.Column, Func: curFunc, Hot: h})
					add(pos.Offset, pos.Offset, fmt.Sprintf("__simrt.Yield(%d); ", id))
				}
			}
			syncRecv := func(sel *ast.SelectorExpr) string {
				s, ok := info.Selections[sel]
				if !ok || s.Kind() != types.MethodVal {
					return ""
				}
				fn, ok := s.Obj().(*types.Func)
				if !ok || fn.Pkg() == nil || fn.Pkg().Path() != "sync" {
					return ""
				}
				sig := fn.Type().(*types.Signature)
				if sig.Recv() == nil {
					return ""
				}
				t := sig.Recv().Type()
				if pt, ok := t.(*types.Pointer); ok {
					t = pt.Elem()
				}
				if nt, ok := t.(*types.Named); ok {
					return nt.Obj().Name()
				}
				return ""
			}
			// channel operations that are the communication of a select case keep
			// their form (select is not shimmed); `v, ok := <-ch` needs Recv2
			inSelect := map[ast.Node]bool{}
			recv2 := map[ast.Node]bool{}
			ast.Inspect(f, func(n ast.Node) bool {
				switch x := n.(type) {
				case *ast.CommClause:
					switch c := x.Comm.(type) {
					case *ast.SendStmt:
						inSelect[c] = true
					case *ast.ExprStmt:
						inSelect[ast.Unparen(c.X)] = true
					case *ast.AssignStmt:
						if len(c.Rhs) == 1 {
							inSelect[ast.Unparen(c.Rhs[0])] = true
						}
					}
				case *ast.AssignStmt:
					if len(x.Lhs) == 2 && len(x.Rhs) == 1 {
						if u, ok := ast.Unparen(x.Rhs[0]).(*ast.UnaryExpr); ok && u.Op == token.ARROW {
							recv2[u] = true
						}
					}
				case *ast.ValueSpec:
					if len(x.Names) == 2 && len(x.Values) == 1 {
						if u, ok := ast.Unparen(x.Values[0]).(*ast.UnaryExpr); ok && u.Op == token.ARROW {
							recv2[u] = true
						}
					}
				}
				return true
			})
			clockUsed := false
			timeName := "time"
			skipCalls := map[*ast.CallExpr]bool{}
			skipBlocks := map[*ast.BlockStmt]bool{}
			selLabelPos := map[*ast.SelectStmt]token.Pos{}
			ast.Inspect(f, func(n ast.Node) bool {
				switch x := n.(type) {
				case *ast.FuncDecl:
					curFunc = x.Name.Name
					if x.Recv != nil && len(x.Recv.List) > 0 {
						curFunc = types.ExprString(x.Recv.List[0].Type) + "." + x.Name.Name
					}
				case *ast.SwitchStmt:
					skipBlocks[x.Body] = true
				case *ast.TypeSwitchStmt:
					skipBlocks[x.Body] = true
				case *ast.LabeledStmt:
					if sel, ok := x.Stmt.(*ast.SelectStmt); ok {
						selLabelPos[sel] = x.Pos()
					}
				case *ast.SelectStmt:
					skipBlocks[x.Body] = true
					// A select without a default clause blocks: under the scheduler the
					// task must hand the token on instead.  It becomes a polling select:
					//   __simselN: select { ...cases...; default: __simrt.SelectPark(); goto __simselN }
					// and every case body starts with __simrt.SelectDone().  (Which of
					// several ready cases fires stays the Go runtime's choice.)
					hasDefault := false
					for _, c := range x.Body.List {
						if cc, ok := c.(*ast.CommClause); ok && cc.Comm == nil {
							hasDefault = true
						}
					}
					if !hasDefault && len(x.Body.List) > 0 {
						at := x.Pos()
						if lp, ok := selLabelPos[x]; ok {
							at = lp
						}
						n := nextSelect
						nextSelect++
						lbl := fmt.Sprintf("__simsel%d", n)
						// The polling form re-enters the select; Go evaluates channel
						// operands and send values exactly once, in source order, so
						// they are hoisted into temporaries first (a time.After in a
						// case must not create a fresh timer per poll).
						// the hoisted text loses the edits nested in it: the clock seam is
						// re-applied textually, operands with function literals or nested
						// receives stay where they are (evaluated again at every poll)
						alias := "time"
						for _, im := range f.Imports {
							if im.Path.Value == `"time"` && im.Name != nil {
								alias = im.Name.Name
							}
						}
						clockRe := regexp.MustCompile(`\b` + regexp.QuoteMeta(alias) + `\.(Now|Since|Until|Sleep|After)\b`)
						src := func(e ast.Expr) string {
							t := string(srcs[full][offset(e.Pos()):offset(e.End())])
							if clockRe.MatchString(t) {
								t = clockRe.ReplaceAllString(t, "__simrt.$1")
								clockUsed = true
								timeName = alias
							}
							return t
						}
						hoist := ""
						hoistable := func(e ast.Expr) bool {
							tv, ok := info.Types[e]
							if !ok || tv.Value != nil || tv.IsNil() || tv.Type == nil {
								return false
							}
							plain := true
							ast.Inspect(e, func(n ast.Node) bool {
								switch u := n.(type) {
								case *ast.FuncLit:
									plain = false
								case *ast.UnaryExpr:
									if u.Op == token.ARROW {
										plain = false
									}
								}
								return plain
							})
							return plain
						}
						for ci, c := range x.Body.List {
							cc := c.(*ast.CommClause)
							var recv *ast.UnaryExpr
							switch cm := cc.Comm.(type) {
							case *ast.SendStmt:
								if hoistable(cm.Chan) {
									name := fmt.Sprintf("__simc%d_%d", n, ci)
									hoist += name + " := " + src(cm.Chan) + "; "
									add(offset(cm.Chan.Pos()), offset(cm.Chan.End()), name)
								}
								if tv := info.Types[cm.Value]; hoistable(cm.Value) {
									if b, isBasic := tv.Type.(*types.Basic); !isBasic || b.Info()&types.IsUntyped == 0 {
										name := fmt.Sprintf("__simv%d_%d", n, ci)
										hoist += name + " := " + src(cm.Value) + "; "
										add(offset(cm.Value.Pos()), offset(cm.Value.End()), name)
									}
								}
							case *ast.ExprStmt:
								recv, _ = ast.Unparen(cm.X).(*ast.UnaryExpr)
							case *ast.AssignStmt:
								if len(cm.Rhs) == 1 {
									recv, _ = ast.Unparen(cm.Rhs[0]).(*ast.UnaryExpr)
								}
							}
							if recv != nil && recv.Op == token.ARROW && hoistable(recv.X) {
								name := fmt.Sprintf("__simc%d_%d", n, ci)
								hoist += name + " := " + src(recv.X) + "; "
								add(offset(recv.X.Pos()), offset(recv.X.End()), name)
							}
							add(offset(cc.Colon)+1, offset(cc.Colon)+1, " __simrt.SelectDone(); ")
						}
						add(offset(at), offset(at), hoist+lbl+": ")
						// callers that are not scheduled tasks (goroutines of the library's
						// own, or no simulation running) get a nil channel here: for them the
						// statement stays the blocking select it was
						add(offset(x.Body.Rbrace), offset(x.Body.Rbrace), "; case <-__simrt.SelectWake(): __simrt.SelectPark(); goto "+lbl+"\n")
						sf.SelectShims++
					}
				case *ast.BlockStmt:
					if !skipBlocks[x] {
						insertYields(x.List)
					}
				case *ast.CaseClause:
					insertYields(x.Body)
				case *ast.CommClause:
					insertYields(x.Body)
				case *ast.RangeStmt:
					if tv, ok := info.Types[x.X]; ok && tv.Type != nil {
						if _, isChan := tv.Type.Underlying().(*types.Chan); isChan {
							// for v := range ch  ->  for v := range __simrt.ChanSeq(ch)
							add(offset(x.X.Pos()), offset(x.X.Pos()), "__simrt.ChanSeq(")
							add(offset(x.X.End()), offset(x.X.End()), ")")
							sf.ChanShims++
						}
						if _, isMap := tv.Type.Underlying().(*types.Map); isMap {
							add(offset(x.X.Pos()), offset(x.X.Pos()), "__simrt.MapSeq(")
							add(offset(x.X.End()), offset(x.X.End()), ")")
							sf.MapRanges++
							pos := fset.Position(x.Pos())
							sf.MapRangeLocs = append(sf.MapRangeLocs, fmt.Sprintf("%s:%d", rel, pos.Line))
						}
					}
				case *ast.SendStmt:
					// ch <- v   ->   __simrt.Send(ch, v)
					if inSelect[x] {
						return true
					}
					add(offset(x.Pos()), offset(x.Pos()), "__simrt.Send(")
					add(offset(x.Chan.End()), offset(x.Value.Pos()), ", ")
					add(offset(x.End()), offset(x.End()), ")")
					sf.ChanShims++
				case *ast.UnaryExpr:
					if x.Op != token.ARROW || inSelect[x] {
						return true
					}
					if recv2[x] {
						add(offset(x.Pos()), offset(x.X.Pos()), "__simrt.Recv2(")
					} else {
						add(offset(x.Pos()), offset(x.X.Pos()), "__simrt.Recv(")
					}
					add(offset(x.End()), offset(x.End()), ")")
					sf.ChanShims++
				case *ast.GoStmt:
					sf.GoStmts++
					pos := fset.Position(x.Pos())
					sf.GoStmtLocs = append(sf.GoStmtLocs, fmt.Sprintf("%s:%d", rel, pos.Line))
					skipCalls[x.Call] = true
				case *ast.DeferStmt:
					skipCalls[x.Call] = true
				case *ast.CallExpr:
					if skipCalls[x] {
						return true
					}
					sel, ok := x.Fun.(*ast.SelectorExpr)
					if !ok {
						return true
					}
					// time.Now() etc. -> the simulated clock
					if id, ok := sel.X.(*ast.Ident); ok {
						if pn, ok := info.Uses[id].(*types.PkgName); ok && pn.Imported().Path() == "time" {
							switch sel.Sel.Name {
							case "Now", "Since", "Until", "Sleep", "After":
								add(offset(sel.Pos()), offset(sel.End()), "__simrt."+sel.Sel.Name)
								sf.ClockShims++
								clockUsed = true
								timeName = id.Name
							}
							return true
						}
					}
					recv := syncRecv(sel)
					switch {
					case (recv == "Mutex" || recv == "RWMutex") && (sel.Sel.Name == "Lock" || sel.Sel.Name == "RLock") && len(x.Args) == 0:
						try := "TryLock"
						if sel.Sel.Name == "RLock" {
							try = "TryRLock"
						}
						xsrc := string(srcs[full][offset(sel.X.Pos()):offset(sel.X.End())])
						add(offset(x.Pos()), offset(x.End()),
							fmt.Sprintf("__simrt.Lock((%s).%s, (%s).%s)", xsrc, try, xsrc, sel.Sel.Name))
						sf.LockShims++
					case recv == "Cond" && (sel.Sel.Name == "Wait" || sel.Sel.Name == "Signal" || sel.Sel.Name == "Broadcast") && len(x.Args) == 0:
						xsrc := string(srcs[full][offset(sel.X.Pos()):offset(sel.X.End())])
						arg := "(" + xsrc + ")"
						if tv, ok := info.Types[sel.X]; ok {
							if _, isPtr := tv.Type.Underlying().(*types.Pointer); !isPtr {
								arg = "&(" + xsrc + ")"
							}
						}
						add(offset(x.Pos()), offset(x.End()), "__simrt.Cond"+sel.Sel.Name+"("+arg+")")
						sf.LockShims++
					case recv == "WaitGroup" && sel.Sel.Name == "Wait" && len(x.Args) == 0:
						xsrc := string(srcs[full][offset(sel.X.Pos()):offset(sel.X.End())])
						add(offset(x.Pos()), offset(x.End()), fmt.Sprintf("__simrt.WGWait((%s).Wait)", xsrc))
						sf.WGShims++
					case recv == "Once" && sel.Sel.Name == "Do" && len(x.Args) == 1:
						add(offset(x.Pos()), offset(x.Pos()), "__simrt.OnceDo(")
						add(offset(sel.End()), offset(x.Lparen)+1, ", ")
						sf.OnceShims++
					}
				}
				return true
			})
			if len(edits) == 0 {
				continue
			}
			// import, on the same line as the package clause
			add(offset(f.Name.End()), offset(f.Name.End()), `; import __simrt "simrt"`)
			sort.SliceStable(edits, func(a, b int) bool {
				if edits[a].off != edits[b].off {
					return edits[a].off < edits[b].off
				}
				return edits[a].seq < edits[b].seq
			})
			src := srcs[full]
			var buf bytes.Buffer
			last := 0
			for _, e := range edits {
				if e.off < last {
					// overlapping replacement (nested shim inside a replaced call): skip
					continue
				}
				buf.Write(src[last:e.off])
				buf.WriteString(e.text)
				last = e.end
			}
			buf.Write(src[last:])
			if clockUsed {
				// keep the import of "time" used even if every use was rewritten
				buf.WriteString("\nvar _ = " + timeName + ".Now\n")
			}
			// A file that only got the import but uses nothing cannot happen:
			// edits is non-empty, every edit references __simrt.
			if err := os.WriteFile(full, buf.Bytes(), 0o644); err != nil {
				die("%v", err)
			}
			sf.Files++
		}
	}

	// go.mod of the scratch copy
	gm := filepath.Join(abs, "go.mod")
	b, err := os.ReadFile(gm)
	if err != nil {
		die("%v", err)
	}
	var outLines []string
	for _, l := range strings.Split(string(b), "\n") {
		t := strings.TrimSpace(l)
		if strings.HasPrefix(t, "go ") {
			outLines = append(outLines, "go 1.23")
			continue
		}
		if strings.HasPrefix(t, "toolchain ") {
			continue
		}
		outLines = append(outLines, l)
	}
	outLines = append(outLines, "require simrt v0.0.0", "replace simrt => "+*simrtDir, "")
	if err := os.WriteFile(gm, []byte(strings.Join(outLines, "\n")), 0o644); err != nil {
		die("%v", err)
	}

	jb, _ := json.Marshal(sf)
	if err := os.WriteFile(*sitesOut, jb, 0o644); err != nil {
		die("%v", err)
	}
	fmt.Fprintf(os.Stderr, "cvssinst: %d packages, %d files, %d yield sites (%d hot), %d map ranges, %d lock shims, %d once shims, %d channel shims, %d select shims, %d waitgroup shims, %d clock shims, %d go statements\n",
		len(mods), sf.Files, len(sf.Sites), sf.HotSites, sf.MapRanges, sf.LockShims, sf.OnceShims, sf.ChanShims, sf.SelectShims, sf.WGShims, sf.ClockShims, sf.GoStmts)
}
