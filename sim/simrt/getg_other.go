//go:build !amd64

package simrt

func getg() uintptr { return 0 }

const fastG = false
