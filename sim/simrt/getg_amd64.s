#include "textflag.h"

// func getg() uintptr
// The address of the current goroutine's g structure: an identity that is
// stable for the goroutine's lifetime and costs two instructions.
TEXT ·getg(SB),NOSPLIT,$0-8
	MOVQ (TLS), AX
	MOVQ AX, ret+0(FP)
	RET
