// selftest exercises the scheduler/race-detector interplay that the C16 check
// relies on: (1) a memoising shared object is reported by the race detector under
// a fully serialised schedule; (2) a read-only shared object is not; (3) the same
// config gives the same fingerprint and switch list; (4) a mutex-protected
// counter is race-free and the lock shim never deadlocks.
package main

import (
	"fmt"
	"os"
	"sync"

	"simrt"
)

type memo struct {
	a, b  float64
	have  bool
	cache float64
}

func (m *memo) score(memoise bool) float64 {
	simrt.Yield(1)
	if memoise && m.have {
		simrt.Yield(2)
		return m.cache
	}
	simrt.Yield(3)
	v := m.a * m.b
	simrt.Yield(4)
	if memoise {
		m.cache = v
		simrt.Yield(5)
		m.have = true
	}
	simrt.Yield(6)
	return v
}

var mu sync.Mutex
var counter int

func locked() {
	simrt.Yield(7)
	simrt.Lock(mu.TryLock, mu.Lock)
	simrt.Yield(8)
	c := counter
	simrt.Yield(9)
	counter = c + 1
	simrt.Yield(10)
	mu.Unlock()
}

func run(memoise bool, seed uint64, pol int) (simrt.Result, int) {
	shared := &memo{a: 2, b: 3}
	before := raceErrors()
	var tasks []func()
	for i := 0; i < 4; i++ {
		tasks = append(tasks, func() {
			for j := 0; j < 5; j++ {
				if shared.score(memoise) != 6 {
					panic("wrong")
				}
				locked()
			}
		})
	}
	cfg := simrt.Config{Policy: pol, PThresh: ^uint64(0) / 3, SchedSeed: seed, Prio: []int{2, 0, 3, 1}, PCTPoints: []uint64{10, 50, 90}}
	res := simrt.Run(cfg, tasks)
	return res, raceErrors() - before
}

// condScenario: two consumers wait on a sync.Cond for items a producer appends;
// also a channel hand-over through the Recv/Send shims.
func condScenario(seed uint64, pol int, withChannel bool) (simrt.Result, int) {
	var m sync.Mutex
	c := sync.NewCond(&m)
	var items []int
	got := 0
	ch := make(chan int)
	consumer := func() {
		for i := 0; i < 3; i++ {
			simrt.Yield(11)
			simrt.Lock(m.TryLock, m.Lock)
			for len(items) == 0 {
				simrt.Yield(12)
				simrt.CondWait(c)
			}
			got += items[0]
			items = items[1:]
			simrt.Yield(13)
			m.Unlock()
		}
		if withChannel {
			simrt.Send(ch, 1)
		}
	}
	producer := func() {
		for i := 1; i <= 6; i++ {
			simrt.Yield(14)
			simrt.Lock(m.TryLock, m.Lock)
			items = append(items, i)
			simrt.Yield(15)
			if i%2 == 0 {
				simrt.CondBroadcast(c)
			} else {
				simrt.CondSignal(c)
			}
			m.Unlock()
		}
		if withChannel {
			got += simrt.Recv(ch) + simrt.Recv(ch)
		}
	}
	cfg := simrt.Config{Policy: pol, PThresh: ^uint64(0) / 2, SchedSeed: seed, Prio: []int{1, 2, 0}, PCTPoints: []uint64{5, 20}}
	res := simrt.Run(cfg, []func(){producer, consumer, consumer})
	return res, got
}

func main() {
	fail := false
	for _, pol := range []int{simrt.PolicyNone, simrt.PolicyBernoulli, simrt.PolicyPCT} {
		for seed := uint64(1); seed <= 20; seed++ {
			// sync.Cond through the shim: functional result and exact determinism
			r1, got := condScenario(seed, pol, false)
			r2, got2 := condScenario(seed, pol, false)
			if got != 21 || got2 != 21 || r1.Deadlock || r1.FP != r2.FP {
				fmt.Println("FAIL: cond scenario", pol, seed, got, got2, r1.Deadlock, r1.FP, r2.FP)
				fail = true
			}
			// plus an unbuffered task-to-task hand-over: the blocking send is done by
			// a helper goroutine whose timing is real, so only the functional result
			// is required to be stable (the number of polling rounds is not)
			r3, got3 := condScenario(seed, pol, true)
			if got3 != 23 || r3.Deadlock {
				fmt.Println("FAIL: cond+channel scenario", pol, seed, got3, r3.Deadlock)
				fail = true
			}
		}
	}
	fmt.Println("cond/channel scenarios done")
	for _, pol := range []int{simrt.PolicyNone, simrt.PolicyBernoulli, simrt.PolicyPCT} {
		counter = 0
		r1, races := run(false, 42, pol)
		if races != 0 {
			fmt.Println("FAIL: race reported for read-only shared object, policy", pol)
			fail = true
		}
		if counter != 20 {
			fmt.Println("FAIL: counter", counter)
			fail = true
		}
		r2, _ := run(false, 42, pol)
		if r1.FP != r2.FP || r1.NSwitches != r2.NSwitches || r1.Yields != r2.Yields {
			fmt.Println("FAIL: nondeterministic", pol, r1.FP, r2.FP)
			fail = true
		}
		// replay through the explicit list
		cfg := simrt.Config{Policy: simrt.PolicyExplicit, Explicit: r1.Switches, Prio: []int{2, 0, 3, 1}}
		shared := &memo{a: 2, b: 3}
		var tasks []func()
		for i := 0; i < 4; i++ {
			tasks = append(tasks, func() {
				for j := 0; j < 5; j++ {
					shared.score(false)
					locked()
				}
			})
		}
		r3 := simrt.Run(cfg, tasks)
		if r3.FP != r1.FP {
			fmt.Println("FAIL: explicit replay differs", pol, r1.FP, r3.FP, r1.NSwitches, r3.NSwitches)
			fail = true
		}
		fmt.Printf("policy %d: yields=%d switches=%d preempt=%d blocked=%d fp=%016x races=%d\n", pol, r1.Yields, r1.NSwitches, r1.Preemptions, r1.BlockedSw, r1.FP, races)
	}
	if raceEnabled {
		_, races := run(true, 7, simrt.PolicyBernoulli)
		if races == 0 {
			fmt.Println("FAIL: memoising shared object not reported by the race detector")
			fail = true
		} else {
			fmt.Println("memoising object: race reports =", races)
		}
		_, races = run(true, 7, simrt.PolicyNone)
		fmt.Println("memoising object, no pre-emption: race reports =", races, "(same stacks are reported once per process)")
	}
	if fail {
		os.Exit(1)
	}
	fmt.Println("SELFTEST OK race=", raceEnabled)
}
