//go:build amd64

package simrt

func getg() uintptr

const fastG = true
