package simrt

import (
	"fmt"
	"sync"
	"testing"
)

func TestCondAndChannelShims(t *testing.T) {
	DeadlockHook = func() {
		fmt.Printf("DEADLOCK cur=%d done=%v stuck=%d helpers=%d yields=%v conds=%d\n", st.cur, st.done[:3], st.stuck, st.helpers, st.yields[:3], len(conds))
		for _, cs := range conds {
			fmt.Printf("  cond %p waiting=%v signalled=%v\n", cs.c, cs.waiting[:cs.nwaiting], cs.signalled)
		}
		panic("deadlock")
	}
	for seed := uint64(1); seed <= 40; seed++ {
		var m sync.Mutex
		c := sync.NewCond(&m)
		var items []int
		got := 0
		ch := make(chan int)
		consumer := func() {
			for i := 0; i < 3; i++ {
				Yield(11)
				Lock(m.TryLock, m.Lock)
				for len(items) == 0 {
					Yield(12)
					CondWait(c)
				}
				got += items[0]
				items = items[1:]
				Yield(13)
				m.Unlock()
			}
			Send(ch, 1)
		}
		producer := func() {
			for i := 1; i <= 6; i++ {
				Yield(14)
				Lock(m.TryLock, m.Lock)
				items = append(items, i)
				Yield(15)
				if i%2 == 0 {
					CondBroadcast(c)
				} else {
					CondSignal(c)
				}
				m.Unlock()
			}
			got += Recv(ch) + Recv(ch)
		}
		cfg := Config{Policy: PolicyBernoulli, PThresh: ^uint64(0) / 2, SchedSeed: seed, Prio: []int{1, 2, 0}}
		res := Run(cfg, []func(){producer, consumer, consumer})
		if got != 23 || res.Deadlock {
			t.Fatalf("seed %d got %d deadlock %v", seed, got, res.Deadlock)
		}
	}
}

// Several waiters queue on one Cond at the same time; Signal and Broadcast wake
// them in turn.  Under -race this also proves that the shim's own bookkeeping is
// invisible to the race detector (no maps, no copy builtin).
func TestCondManyWaiters(t *testing.T) {
	for seed := uint64(1); seed <= 60; seed++ {
		var m sync.Mutex
		c := sync.NewCond(&m)
		ready := 0
		woken := 0
		waiter := func() {
			Yield(21)
			Lock(m.TryLock, m.Lock)
			for ready == 0 {
				Yield(22)
				CondWait(c)
			}
			ready--
			woken++
			m.Unlock()
		}
		waker := func() {
			for i := 0; i < 3; i++ {
				Yield(23)
				Lock(m.TryLock, m.Lock)
				ready++
				Yield(24)
				m.Unlock()
				// signalling without holding the lock is allowed; it also means that
				// nothing but the shim itself orders two signallers
				if i%2 == 0 {
					CondSignal(c)
				} else {
					CondBroadcast(c)
				}
			}
		}
		pol := []int{PolicyNone, PolicyBernoulli, PolicyPCT}[seed%3]
		cfg := Config{Policy: pol, PThresh: ^uint64(0) / 3, SchedSeed: seed, Prio: []int{1, 2, 3, 4, 5, 7, 0, 6}, PCTPoints: []uint64{3, 9, 20}}
		// two tasks signal: the shim's waiter queue is written by different goroutines
		res := Run(cfg, []func(){waker, waiter, waiter, waiter, waiter, waiter, waker, waiter})
		if woken != 6 || res.Deadlock {
			t.Fatalf("seed %d: woken %d deadlock %v", seed, woken, res.Deadlock)
		}
	}
}

// Single-flight between tasks: the leader computes, the others wait on a
// WaitGroup (shimmed) or on a done channel in a select (shimmed form: polling
// select whose default clause parks the task).
func TestWaitGroupAndSelectShims(t *testing.T) {
	DeadlockHook = func() { panic("deadlock") }
	for seed := uint64(1); seed <= 60; seed++ {
		type call struct {
			wg   sync.WaitGroup
			done chan struct{}
			val  int
		}
		var mu sync.Mutex
		var cur *call
		results := [4]int{}
		worker := func(i int, useSelect bool) func() {
			return func() {
				Yield(21)
				Lock(mu.TryLock, mu.Lock)
				if c := cur; c != nil {
					mu.Unlock()
					Yield(22)
					if useSelect {
					again:
						select {
						case <-c.done:
							SelectDone()
						default:
							SelectPark()
							goto again
						}
					} else {
						WGWait(c.wg.Wait)
					}
					results[i] = c.val
					return
				}
				c := &call{done: make(chan struct{})}
				c.wg.Add(1)
				cur = c
				mu.Unlock()
				Yield(23)
				Yield(24)
				c.val = 77
				Yield(25)
				c.wg.Done()
				close(c.done)
				results[i] = c.val
			}
		}
		cfg := Config{Policy: PolicyBernoulli, PThresh: ^uint64(0) / 2, SchedSeed: seed, Prio: []int{int(seed) % 4, 1, 2, 3, 0}}
		res := Run(cfg, []func(){worker(0, false), worker(1, true), worker(2, false), worker(3, true)})
		if results != [4]int{77, 77, 77, 77} || res.Deadlock {
			t.Fatalf("seed %d results %v deadlock %v", seed, results, res.Deadlock)
		}
	}
}
