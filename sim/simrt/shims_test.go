package simrt

import (
	"fmt"
	"sync"
	"testing"
)

func TestCondAndChannelShims(t *testing.T) {
	DeadlockHook = func() {
		fmt.Printf("DEADLOCK cur=%d done=%v stuck=%d helpers=%d yields=%v conds=%d\n", st.cur, st.done[:3], st.stuck, st.helpers, st.yields[:3], len(conds))
		for _, cs := range conds {
			fmt.Printf("  cond %p waiting=%v signalled=%v\n", cs.c, cs.waiting[:cs.nwaiting], cs.signalled)
		}
		panic("deadlock")
	}
	for seed := uint64(1); seed <= 40; seed++ {
		var m sync.Mutex
		c := sync.NewCond(&m)
		var items []int
		got := 0
		ch := make(chan int)
		consumer := func() {
			for i := 0; i < 3; i++ {
				Yield(11)
				Lock(m.TryLock, m.Lock)
				for len(items) == 0 {
					Yield(12)
					CondWait(c)
				}
				got += items[0]
				items = items[1:]
				Yield(13)
				m.Unlock()
			}
			Send(ch, 1)
		}
		producer := func() {
			for i := 1; i <= 6; i++ {
				Yield(14)
				Lock(m.TryLock, m.Lock)
				items = append(items, i)
				Yield(15)
				if i%2 == 0 {
					CondBroadcast(c)
				} else {
					CondSignal(c)
				}
				m.Unlock()
			}
			got += Recv(ch) + Recv(ch)
		}
		cfg := Config{Policy: PolicyBernoulli, PThresh: ^uint64(0) / 2, SchedSeed: seed, Prio: []int{1, 2, 0}}
		res := Run(cfg, []func(){producer, consumer, consumer})
		if got != 23 || res.Deadlock {
			t.Fatalf("seed %d got %d deadlock %v", seed, got, res.Deadlock)
		}
	}
}
