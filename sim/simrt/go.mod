module simrt

go 1.23
