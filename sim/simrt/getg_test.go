package simrt

import (
	"sync"
	"testing"
)

func TestGetg(t *testing.T) {
	a := getg()
	if a == 0 || a != getg() {
		t.Fatal("getg unstable", a)
	}
	var wg sync.WaitGroup
	var b uintptr
	wg.Add(1)
	go func() { defer wg.Done(); b = getg() }()
	wg.Wait()
	if b == 0 || b == a {
		t.Fatal("other goroutine has same g", a, b)
	}
}

func BenchmarkCurGoid(b *testing.B) {
	for i := 0; i < b.N; i++ {
		_ = curGoid()
	}
}
