// Package simrt is the runtime the instrumented copy of go-cvss calls into.
//
// It owns every source of nondeterminism the simulated properties depend on:
//
//   - which caller goroutine ("task") runs next: tasks are real goroutines, but
//     exactly one holds the token; Yield hands the token over with raw
//     read(2)/write(2) system calls on pipes, issued from //go:norace functions.
//     The Go race detector does not model raw syscalls as synchronisation, so the
//     hand-off serialises the tasks in real time without creating a happens-before
//     edge in the detector's view.  A deterministic, serialised execution therefore
//     still receives the detector's full verdict.
//   - map iteration order (MapSeq).
//
// All scheduler state is touched only by the token holder and only inside
// //go:norace //go:noinline functions.  simrt never reads a clock and never uses
// math/rand.
package simrt

import (
	"fmt"
	"iter"
	"reflect"
	"runtime"
	"sort"
	"sync"
	"syscall"
	"time"
	"unsafe"
)

// Policies.
const (
	PolicyNone      = 0 // no pre-emption: tasks run to completion in priority order
	PolicyBernoulli = 1 // switch at a yield with probability P
	PolicyPCT       = 2 // priority schedule with change points
	PolicyExplicit  = 3 // replay of a recorded switch list
	PolicySweep     = 4 // exactly one pre-emption: task SweepTask at its SweepK-th hot yield
)

// Map-order policies.
const (
	MapCanonical = 0
	MapReversed  = 1
	MapPermuted  = 2
)

// SiteIO is the first site id used by harness-owned yield points (simulated reader).
const SiteIO = 1 << 20

// MaxSites bounds the site ids of instrumented yield points.
const MaxSites = 1 << 16

// MaxTasks bounds the number of tasks of one run.
const MaxTasks = 16

// Switch is one recorded hand-over of the token.
// K is the index of the yield (per task) at which Task was pre-empted; for a
// switch caused by task completion K is the number of yields Task executed.
type Switch struct {
	Task int    `json:"t"`
	K    uint64 `json:"k"`
	Next int    `json:"n"`
	Site uint32 `json:"s"`
	End  bool   `json:"e,omitempty"`
}

// Config describes one simulated execution.
type Config struct {
	Policy     int
	PThresh    uint64   // Bernoulli: switch iff next() < PThresh
	HotThresh  uint64   // Bernoulli: threshold used instead at "hot" sites (SetHotSites), if larger
	OnlyIO     bool     // Bernoulli: consider only harness I/O yield points
	SchedSeed  uint64   // stream for scheduling choices
	MapPolicy  int      // MapCanonical / MapReversed / MapPermuted
	MapSeed    uint64   // stream for map orders
	Prio       []int    // priority permutation of the tasks (highest first)
	PCTPoints  []uint64 // PCT: global yield counts at which the running task is demoted
	Explicit   []Switch // PolicyExplicit: switch list
	MaxYields  uint64   // 0 = unlimited
	KeepSwitch int      // keep at most this many switches in the result (all are hashed)
	SweepTask  int      // PolicySweep
	SweepK     uint64   // PolicySweep
}

// Result is what a run leaves behind.
type Result struct {
	Yields      uint64
	PerTask     []uint64
	Switches    []Switch
	NSwitches   uint64
	Preemptions uint64 // switches not caused by completion / blocking
	MapRanges   uint64
	FP          uint64 // fingerprint of the event log
	Deadlock    bool
	Budget      bool
	BlockedSw   uint64
	HotYields   []uint64 // per task: yields at hot sites (incl. harness I/O yields)
}

type pipe struct{ r, w int }

var st struct {
	active        bool
	ntasks        int
	cur           int
	done          [MaxTasks]bool
	yields        [MaxTasks]uint64
	hotcnt        [MaxTasks]uint64
	mapcnt        [MaxTasks]uint64
	prio          [MaxTasks]int // prio[t] = priority value, larger runs first
	total         uint64
	cfg           Config
	srng          uint64
	explicit      map[[2]uint64]int
	pctIdx        int
	noPreempt     int
	stuck         int
	res           Result
	pipes         [MaxTasks]pipe
	mainPipe      pipe
	pipesOK       bool
	aborted       bool
	seq           bool
	checkGoid     bool // verify the caller's goroutine identity at every yield
	libGoroutines bool // the instrumented library contains go statements
	helpers       int  // blocking sends handed to helper goroutines, not yet delivered
	softBlock     bool // a task parked in a select: a runtime timer may end the wait, no deadlock verdict
	goids         [MaxTasks]uint64
	seqGoid       uint64
	foreign       uint64
}

var hits [MaxSites]uint32
var ioHits uint64
var hotSite [MaxSites]bool

// SetHotSites marks the yield sites at which the HotThresh probability applies:
// statements that touch package-level state, sync/atomic, or store through a
// selector or index expression (classified by the instrumenter).
func SetHotSites(ids []uint32) {
	for _, id := range ids {
		if id < MaxSites {
			setHot(id)
		}
	}
}

//go:norace
//go:noinline
func setHot(id uint32) { hotSite[id] = true }

//go:norace
//go:noinline
func splitmix(x *uint64) uint64 {
	*x += 0x9e3779b97f4a7c15
	z := *x
	z = (z ^ (z >> 30)) * 0xbf58476d1ce4e5b9
	z = (z ^ (z >> 27)) * 0x94d049bb133111eb
	return z ^ (z >> 31)
}

//go:norace
//go:noinline
func mix(h, v uint64) uint64 {
	h ^= v + 0x9e3779b97f4a7c15 + (h << 6) + (h >> 2)
	h *= 0xff51afd7ed558ccd
	h ^= h >> 33
	return h
}

// Mix is an exported, stateless hash combiner for harness code.
func Mix(h, v uint64) uint64 { return mix(h, v) }

// SplitMix derives the n-th value of the stream seeded with seed.
func SplitMix(seed, n uint64) uint64 {
	x := seed + n*0x9e3779b97f4a7c15
	return splitmix(&x)
}

//go:norace
//go:noinline
func rawWrite(fd int) {
	var b [1]byte
	for {
		n, _, e := syscall.Syscall(syscall.SYS_WRITE, uintptr(fd), uintptr(unsafe.Pointer(&b[0])), 1)
		if e == syscall.EINTR || e == syscall.EAGAIN {
			continue
		}
		if e != 0 || n != 1 {
			fatal("simrt: raw write failed")
		}
		return
	}
}

//go:norace
//go:noinline
func rawRead(fd int) {
	var b [1]byte
	for {
		n, _, e := syscall.Syscall(syscall.SYS_READ, uintptr(fd), uintptr(unsafe.Pointer(&b[0])), 1)
		if e == syscall.EINTR || e == syscall.EAGAIN {
			continue
		}
		if e != 0 || n != 1 {
			fatal("simrt: raw read failed")
		}
		return
	}
}

//go:norace
//go:noinline
func fatal(msg string) {
	m := []byte("SIMRT-FATAL " + msg + "\n")
	syscall.Syscall(syscall.SYS_WRITE, 2, uintptr(unsafe.Pointer(&m[0])), uintptr(len(m)))
	syscall.Exit(2)
}

//go:norace
//go:noinline
func ensurePipes() {
	if st.pipesOK {
		return
	}
	mk := func() pipe {
		var p [2]int
		if err := syscall.Pipe2(p[:], syscall.O_CLOEXEC); err != nil {
			fatal("simrt: pipe2 failed")
		}
		return pipe{p[0], p[1]}
	}
	for i := 0; i < MaxTasks; i++ {
		st.pipes[i] = mk()
	}
	st.mainPipe = mk()
	st.pipesOK = true
}

//go:norace
//go:noinline
func begin(cfg Config, n int) {
	ensurePipes()
	st.cfg = cfg
	st.ntasks = n
	st.total = 0
	st.srng = cfg.SchedSeed
	st.pctIdx = 0
	st.noPreempt = 0
	st.stuck = 0
	st.aborted = false
	st.helpers = 0
	st.softBlock = false
	timersReset()
	condReset()
	st.seq = false
	st.res = Result{PerTask: make([]uint64, n), HotYields: make([]uint64, n)}
	for i := 0; i < MaxTasks; i++ {
		st.done[i] = false
		st.yields[i] = 0
		st.hotcnt[i] = 0
		st.mapcnt[i] = 0
		st.prio[i] = 0
	}
	// Prio lists tasks from highest to lowest priority.
	seen := [MaxTasks]bool{}
	p := n + len(cfg.PCTPoints) + 1
	for _, t := range cfg.Prio {
		if t >= 0 && t < n && !seen[t] {
			seen[t] = true
			st.prio[t] = p
			p--
		}
	}
	for t := 0; t < n; t++ {
		if !seen[t] {
			st.prio[t] = p
			p--
		}
	}
	st.explicit = nil
	if cfg.Policy == PolicyExplicit {
		st.explicit = make(map[[2]uint64]int, len(cfg.Explicit))
		for _, s := range cfg.Explicit {
			st.explicit[[2]uint64{uint64(s.Task), s.K}] = s.Next
		}
	}
}

//go:norace
//go:noinline
func highest(except int) int {
	best := -1
	for t := 0; t < st.ntasks; t++ {
		if t == except || st.done[t] {
			continue
		}
		if best < 0 || st.prio[t] > st.prio[best] {
			best = t
		}
	}
	return best
}

//go:norace
//go:noinline
func record(t int, k uint64, next int, site uint32, end bool) {
	st.res.NSwitches++
	h := st.res.FP
	h = mix(h, uint64(t)<<40|uint64(next)<<32|uint64(site))
	h = mix(h, k)
	st.res.FP = h
	if st.cfg.KeepSwitch <= 0 || len(st.res.Switches) < st.cfg.KeepSwitch {
		st.res.Switches = append(st.res.Switches, Switch{Task: t, K: k, Next: next, Site: site, End: end})
	}
}

// SetCheckGoroutine makes Yield verify that the caller is the task holding the
// token and ignore everybody else.  Needed only when the instrumented library
// starts goroutines of its own (the instrumenter counts `go` statements): such a
// goroutine runs unscheduled (the race detector still watches it) and must not
// touch scheduler state.  Costs a runtime.Stack call per yield, hence optional.
func SetCheckGoroutine(on bool) { setCheckGoid(on) }

//go:norace
//go:noinline
func setCheckGoid(on bool) {
	st.libGoroutines = on
	st.checkGoid = on || fastG
}

func init() { setCheckGoid(false) } // on amd64 the identity check is always on: it costs two instructions

//go:norace
//go:noinline
func curGoid() uint64 {
	if fastG {
		return uint64(getg())
	}
	var buf [40]byte
	n := runtime.Stack(buf[:], false)
	// "goroutine 123 [running]:"
	var id uint64
	for i := len("goroutine "); i < n; i++ {
		c := buf[i]
		if c < '0' || c > '9' {
			break
		}
		id = id*10 + uint64(c-'0')
	}
	return id
}

//go:norace
//go:noinline
func foreignCaller() bool {
	if !st.checkGoid {
		return false
	}
	g := curGoid()
	if st.seq || st.ntasks < 2 {
		if g != st.seqGoid {
			st.foreign++
			return true
		}
		return false
	}
	if g != st.goids[st.cur] {
		st.foreign++
		return true
	}
	return false
}

// ForeignYields reports how many yields came from goroutines that are not tasks.
//
//go:norace
//go:noinline
func ForeignYields() uint64 { return st.foreign }

// Yield is called by instrumented code before every statement.
//
//go:norace
//go:noinline
func Yield(site uint32) {
	if !st.active {
		return
	}
	if st.checkGoid && foreignCaller() {
		return
	}
	if site < MaxSites {
		hits[site]++
	} else {
		ioHits++
	}
	t := st.cur
	k := st.yields[t]
	st.yields[t] = k + 1
	st.total++
	st.stuck = 0
	if st.ntasks < 2 || st.seq {
		if st.cfg.MaxYields != 0 && st.total > st.cfg.MaxYields {
			st.res.Budget = true
		}
		return
	}
	if st.cfg.MaxYields != 0 && st.total > st.cfg.MaxYields {
		st.res.Budget = true
		return
	}
	isHot := site >= SiteIO || (site < MaxSites && hotSite[site])
	var hk uint64
	if isHot {
		hk = st.hotcnt[t]
		st.hotcnt[t] = hk + 1
	}
	if st.noPreempt > 0 {
		return
	}
	next := t
	switch st.cfg.Policy {
	case PolicySweep:
		if isHot && t == st.cfg.SweepTask && hk == st.cfg.SweepK {
			if h := highest(t); h >= 0 {
				next = h
			}
		}
	case PolicyExplicit:
		if n, ok := st.explicit[[2]uint64{uint64(t), k}]; ok && n >= 0 && n < st.ntasks && !st.done[n] {
			next = n
		}
	case PolicyBernoulli:
		if st.cfg.OnlyIO && site < SiteIO {
			return
		}
		thr := st.cfg.PThresh
		if st.cfg.HotThresh > thr && (site >= SiteIO || (site < MaxSites && hotSite[site])) {
			thr = st.cfg.HotThresh
		}
		if splitmix(&st.srng) < thr {
			// pick uniformly among the other unfinished tasks
			cnt := 0
			for i := 0; i < st.ntasks; i++ {
				if i != t && !st.done[i] {
					cnt++
				}
			}
			if cnt > 0 {
				j := int(splitmix(&st.srng) % uint64(cnt))
				for i := 0; i < st.ntasks; i++ {
					if i != t && !st.done[i] {
						if j == 0 {
							next = i
							break
						}
						j--
					}
				}
			}
		}
	case PolicyPCT:
		for st.pctIdx < len(st.cfg.PCTPoints) && st.cfg.PCTPoints[st.pctIdx] <= st.total {
			// demote the running task below everything else
			st.prio[t] = len(st.cfg.PCTPoints) - st.pctIdx
			st.pctIdx++
		}
		if h := highest(-1); h >= 0 {
			next = h
		}
	}
	if next == t {
		return
	}
	st.res.Preemptions++
	record(t, k, next, site, false)
	st.cur = next
	rawWrite(st.pipes[next].w)
	rawRead(st.pipes[t].r)
}

//go:norace
//go:noinline
func taskStartWait(t int) {
	if st.checkGoid {
		st.goids[t] = curGoid()
	}
	rawRead(st.pipes[t].r)
}

//go:norace
//go:noinline
func taskEnd(t int) {
	st.done[t] = true
	st.res.PerTask[t] = st.yields[t]
	next := -1
	if st.cfg.Policy == PolicyExplicit {
		if n, ok := st.explicit[[2]uint64{uint64(t), st.yields[t]}]; ok && n >= 0 && n < st.ntasks && !st.done[n] {
			next = n
		}
	}
	if next < 0 {
		next = highest(t)
	}
	if next < 0 {
		rawWrite(st.mainPipe.w)
		return
	}
	record(t, st.yields[t], next, 0, true)
	st.cur = next
	rawWrite(st.pipes[next].w)
}

// blockedYield is used by the lock shims: the running task cannot proceed and
// must hand the token to somebody else.  Deterministic (no PRNG): round robin.
//
//go:norace
//go:noinline
func blockedYield() bool {
	if !st.active || st.ntasks < 2 || st.seq {
		return false
	}
	if st.checkGoid && foreignCaller() {
		return false
	}
	t := st.cur
	st.stuck++
	if st.stuck > 2*st.ntasks+2 {
		if st.libGoroutines || st.helpers > 0 || st.softBlock {
			// somebody outside the scheduler (a goroutine of the library, a helper
			// performing a blocking send) may still make progress: no verdict here;
			// give the OS scheduler a chance and keep polling.  A real deadlock ends
			// in the wall-clock watchdog.
			st.stuck = 0
			runtime.Gosched()
		} else {
			st.res.Deadlock = true
			return false
		}
	}
	next := -1
	for i := 1; i < st.ntasks; i++ {
		c := (t + i) % st.ntasks
		if !st.done[c] {
			next = c
			break
		}
	}
	if next < 0 {
		// nobody else to run: a deadlock, unless somebody outside the scheduler
		// (library goroutine, send helper) can still unblock us - then the caller
		// simply blocks for real
		if !st.libGoroutines && st.helpers == 0 && !st.softBlock {
			st.res.Deadlock = true
		}
		return false
	}
	st.res.BlockedSw++
	h := mix(st.res.FP, 0xb10c<<32|uint64(t)<<8|uint64(next))
	st.res.FP = h
	st.cur = next
	rawWrite(st.pipes[next].w)
	rawRead(st.pipes[t].r)
	return true
}

//go:norace
//go:noinline
func progress() { st.stuck = 0 }

//go:norace
//go:noinline
func markSelfDeadlock() {
	if st.active && (st.ntasks < 2 || st.seq) && !st.libGoroutines {
		st.res.Deadlock = true
	}
}

//go:norace
//go:noinline
func deadlocked() bool { return st.res.Deadlock }

// Lock is the shim for sync.Mutex.Lock / sync.RWMutex.Lock / RLock:
// X.Lock() is rewritten to simrt.Lock(X.TryLock, X.Lock).
func Lock(try func() bool, lock func()) {
	if !isActive() {
		lock()
		return
	}
	for !try() {
		if !blockedYield() {
			// Nobody to hand the token to.  With a single task (or in the
			// sequential phase) the lock can only be held by this very task further
			// up its own stack: a certain self-deadlock - unless the library runs
			// goroutines of its own, in which case one of them may hold it.
			markSelfDeadlock()
			if deadlocked() {
				DeadlockHook()
			}
			// hook returned (or not a deadlock): the real blocking call, so that
			// behaviour is never changed
			lock()
			return
		}
	}
	progress()
}

// Recv is the shim for a blocking channel receive `<-ch` in library code: the
// task polls and hands the token on while the channel is empty, so that another
// task (the one that will send or close) can run.
func Recv[T any](ch <-chan T) T {
	v, _ := Recv2(ch)
	return v
}

// Recv2 is the shim for `v, ok := <-ch`.
func Recv2[T any](ch <-chan T) (T, bool) {
	if !isActive() {
		v, ok := <-ch
		return v, ok
	}
	for {
		select {
		case v, ok := <-ch:
			progress()
			return v, ok
		default:
		}
		if !taskCaller() {
			v, ok := <-ch
			return v, ok
		}
		if timersPoll(everybodyStuck()) {
			continue
		}
		if !blockedYield() {
			if timersPoll(true) {
				continue
			}
			markSelfDeadlockChan()
			if deadlocked() {
				DeadlockHook()
			}
			v, ok := <-ch
			return v, ok
		}
	}
}

// ChanSeq is the shim for `for v := range ch`: every receive goes through Recv2.
func ChanSeq[C ~chan T | ~<-chan T, T any](ch C) iter.Seq[T] {
	return func(yield func(T) bool) {
		for {
			v, ok := Recv2((<-chan T)(ch))
			if !ok || !yield(v) {
				return
			}
		}
	}
}

// Send is the shim for a blocking send statement `ch <- v`.  Two tasks that both
// merely poll an unbuffered channel would never meet, so a send that cannot
// complete at once is handed to a helper goroutine that really blocks in it; the
// task counts as blocked until the helper reports delivery.
func Send[T any](ch chan<- T, v T) {
	if !isActive() {
		ch <- v
		return
	}
	select {
	case ch <- v:
		progress()
		return
	default:
	}
	done := make(chan struct{})
	helperDelta(1)
	go func() {
		defer close(done)
		ch <- v
	}()
	for {
		select {
		case <-done:
			helperDelta(-1)
			progress()
			return
		default:
		}
		if !blockedYield() {
			if deadlocked() {
				DeadlockHook()
			}
			<-done
			helperDelta(-1)
			return
		}
	}
}

//go:norace
//go:noinline
func helperDelta(d int) { st.helpers += d }

// WGWait is the shim for sync.WaitGroup.Wait (x.Wait() is rewritten to
// simrt.WGWait(x.Wait)).  A WaitGroup has no TryWait, so the real Wait runs in a
// helper goroutine and the task hands the token on until the helper reports that
// the counter reached zero: callers that wait for each other (single-flight
// de-duplication) stay runnable under the scheduler.  The happens-before edge
// Done -> Wait -> close(done) -> receive is real, so the race detector sees the
// same synchronisation as in the shipped code.
func WGWait(wait func()) {
	if !taskCaller() || !multiTask() {
		wait()
		return
	}
	done := make(chan struct{})
	helperDelta(1)
	go func() {
		defer close(done)
		wait()
	}()
	for {
		// a counter that is already zero lets the helper finish within
		// microseconds: a short real-time grace keeps the schedule from depending
		// on how fast the helper was started
		select {
		case <-done:
			helperDelta(-1)
			progress()
			return
		case <-time.After(graceWait):
		}
		if !blockedYield() {
			if deadlocked() {
				DeadlockHook()
			}
			<-done
			helperDelta(-1)
			return
		}
	}
}

const graceWait = 500 * time.Microsecond

//go:norace
//go:noinline
func multiTask() bool { return st.ntasks >= 2 && !st.seq }

// taskCaller reports whether the caller is the task holding the token.  A
// goroutine the library started itself is not: it must not touch scheduler state
// (timers, stuck counter) and gets the real blocking behaviour.
//
//go:norace
//go:noinline
func taskCaller() bool { return st.active && !foreignCaller() }

// SelectWake is the extra case the instrumenter adds to a select statement that has
// no default clause.  For the task holding the token it is always ready, which
// turns the statement into a poll: when the runtime picks this case (no other case
// ready, or the coin fell this way) SelectPark hands the token on and the select
// is entered again - with the channel operands evaluated once, before the first
// poll.  Everybody else (no simulation running, a goroutine the library started
// itself) receives a nil channel: the case can never fire and the statement is the
// blocking select it was, so such a goroutine really waits in its channels and a
// polling task can rendez-vous with it.
func SelectWake() <-chan struct{} {
	if taskCaller() {
		return closedChan
	}
	return nil
}

var closedChan = func() chan struct{} { c := make(chan struct{}); close(c); return c }()

// SelectPark: no case was taken, the task hands the token on and polls again when
// it is scheduled next; with nobody to hand over to, a pending simulated timer of
// the task fires (the clock jumps), else the task waits politely - only a goroutine
// of the library or a runtime timer can end that wait.
func SelectPark() {
	if taskCaller() {
		if timersPoll(everybodyStuck()) {
			return
		}
		markSoftBlock()
		if blockedYield() {
			return
		}
		if timersPoll(true) {
			return
		}
		if deadlocked() {
			DeadlockHook()
		}
	}
	time.Sleep(50 * time.Microsecond)
}

//go:norace
//go:noinline
func markSoftBlock() {
	if st.active {
		st.softBlock = true
	}
}

// SelectDone is inserted at the head of every case of a shimmed select.
func SelectDone() {
	if taskCaller() {
		progress()
	}
}

//go:norace
//go:noinline
func markSelfDeadlockChan() {
	// A single task waiting on a channel: unlike a mutex, a channel may be served
	// by the runtime (timers) or by a goroutine of the library, so nothing is
	// concluded here; the caller blocks for real and the wall-clock watchdog is the
	// backstop.
}

// ---------------------------------------------------------------------------
// sync.Cond shim: faithful (no spurious wake-ups).  A task that waits registers
// itself, releases the lock and hands the token on until somebody signals.

// No Go maps here: the runtime's map code reports its accesses to the race
// detector whoever the caller is, and this state is touched by several tasks.
type condState struct {
	c         *sync.Cond
	waiting   [MaxTasks]int // task ids in arrival order
	nwaiting  int
	signalled [MaxTasks]bool // woken, not yet resumed
}

var conds []*condState

//go:norace
//go:noinline
func condFind(c *sync.Cond, create bool) *condState {
	for _, cs := range conds {
		if cs.c == c {
			return cs
		}
	}
	if !create {
		return nil
	}
	cs := &condState{c: c}
	conds = append(conds, cs)
	return cs
}

//go:norace
//go:noinline
func condRegister(c *sync.Cond) (int, bool) {
	if !st.active || st.ntasks < 2 || st.seq || (st.checkGoid && foreignCaller()) {
		return 0, false
	}
	cs := condFind(c, true)
	if cs.nwaiting < MaxTasks {
		cs.waiting[cs.nwaiting] = st.cur
		cs.nwaiting++
	}
	return st.cur, true
}

//go:norace
//go:noinline
func condWoken(c *sync.Cond, t int) bool {
	cs := condFind(c, false)
	if cs != nil && cs.signalled[t] {
		cs.signalled[t] = false
		return true
	}
	return false
}

//go:norace
//go:noinline
func condWake(c *sync.Cond, all bool) {
	cs := condFind(c, false)
	if cs == nil {
		return
	}
	for cs.nwaiting > 0 {
		cs.signalled[cs.waiting[0]] = true
		// element-wise on purpose: the copy builtin goes through runtime.slicecopy,
		// which reports its accesses to the race detector whoever the caller is
		for i := 1; i < cs.nwaiting; i++ {
			cs.waiting[i-1] = cs.waiting[i]
		}
		cs.nwaiting--
		st.stuck = 0
		if !all {
			return
		}
	}
}

//go:norace
//go:noinline
func condReset() { conds = nil }

// CondWait replaces c.Wait().
func CondWait(c *sync.Cond) {
	t, ok := condRegister(c)
	if !ok {
		c.Wait()
		return
	}
	c.L.Unlock()
	for !condWoken(c, t) {
		if !blockedYield() {
			if deadlocked() {
				DeadlockHook()
			}
			break
		}
	}
	if tl, ok := c.L.(interface{ TryLock() bool }); ok {
		Lock(tl.TryLock, c.L.Lock)
	} else {
		c.L.Lock()
	}
}

// CondSignal replaces c.Signal().
func CondSignal(c *sync.Cond) {
	condWake(c, false)
	c.Signal()
}

// CondBroadcast replaces c.Broadcast().
func CondBroadcast(c *sync.Cond) {
	condWake(c, true)
	c.Broadcast()
}

// ---------------------------------------------------------------------------
// Clock seam.  The instrumenter rewrites time.Now / Since / Until / Sleep / After
// in library code to these.  While a simulation is active the clock is the one the
// harness sets (SetNow); it never advances by itself.

var simClock int64 // unix nanoseconds; only touched in norace functions by the token holder
var clockReads uint64

// SetNow sets the simulated clock (harness, token holder only).
//
//go:norace
//go:noinline
func SetNow(unixNano int64) { simClock = unixNano }

//go:norace
//go:noinline
func simNow() (int64, bool) {
	if !st.active {
		return 0, false
	}
	clockReads++
	return simClock, true
}

//go:norace
//go:noinline
func simAdvance(d int64) { simClock += d }

// ClockReads reports how often the library read the simulated clock.
//
//go:norace
//go:noinline
func ClockReads() uint64 { return clockReads }

// Now replaces time.Now.
func Now() time.Time {
	if ns, ok := simNow(); ok {
		return time.Unix(0, ns).UTC()
	}
	return time.Now()
}

// Since replaces time.Since.
func Since(t time.Time) time.Duration {
	if ns, ok := simNow(); ok {
		return time.Unix(0, ns).Sub(t)
	}
	return time.Since(t)
}

// Until replaces time.Until.
func Until(t time.Time) time.Duration {
	if ns, ok := simNow(); ok {
		return t.Sub(time.Unix(0, ns))
	}
	return time.Until(t)
}

// Sleep replaces time.Sleep: simulated time passes, real time does not.
func Sleep(d time.Duration) {
	if _, ok := simNow(); ok {
		if d > 0 {
			simAdvance(int64(d))
		}
		Yield(SiteIO + 9)
		return
	}
	time.Sleep(d)
}

// After replaces time.After with a simulated timer owned by the calling task.  One
// timer in four (scheduler PRNG) fires at once - the clock jumps by d, which is what
// a stalled caller would see; the others fire when simulated time has passed their
// deadline (Sleep, another timer, the harness) or when every task is blocked, in
// which case the clock jumps to the earliest deadline of the polling task
// (discrete-event time: waiting costs no real time).  A timer is fired by its owner
// while it polls (shimmed receive or select), so that no synchronisation between
// tasks is added that the shipped code does not have.
func After(d time.Duration) <-chan time.Time {
	if _, ok := simNow(); ok {
		ch := make(chan time.Time, 1)
		if !taskCaller() {
			// a goroutine of the library's own is not scheduled: it waits in real time
			return time.After(d)
		}
		if d <= 0 || !timerAdd(int64(d), ch) {
			if d > 0 {
				simAdvance(int64(d))
			}
			ch <- Now()
		}
		return ch
	}
	return time.After(d)
}

const maxTimers = 8

type simTimer struct {
	at   int64
	ch   chan time.Time
	live bool
}

var simTimers [MaxTasks][maxTimers]simTimer
var timerStats struct{ created, early, due, jumped uint64 }

// TimerStats reports simulated timers created / fired at once / fired when due /
// fired by a clock jump because every task was blocked.
//
//go:norace
//go:noinline
func TimerStats() (created, early, due, jumped uint64) {
	return timerStats.created, timerStats.early, timerStats.due, timerStats.jumped
}

// timerAdd registers a pending timer for the running task; false means "fire now".
//
//go:norace
//go:noinline
func timerAdd(d int64, ch chan time.Time) bool {
	timerStats.created++
	if splitmix(&st.srng)&3 == 0 {
		timerStats.early++
		return false
	}
	t := st.cur
	if t < 0 || t >= MaxTasks {
		return false
	}
	for i := range simTimers[t] {
		if !simTimers[t][i].live {
			simTimers[t][i].at = simClock + d
			simTimers[t][i].ch = ch
			simTimers[t][i].live = true
			return true
		}
	}
	return false
}

// timerPick returns a timer of the running task that is due; with force it
// returns the pending timer with the earliest deadline and moves the clock there.
//
//go:norace
//go:noinline
func timerPick(force bool) (chan time.Time, int64) {
	t := st.cur
	if t < 0 || t >= MaxTasks {
		return nil, 0
	}
	best := -1
	for i := range simTimers[t] {
		tm := &simTimers[t][i]
		if tm.live && (best < 0 || tm.at < simTimers[t][best].at) {
			best = i
		}
	}
	if best < 0 {
		return nil, 0
	}
	tm := &simTimers[t][best]
	if tm.at > simClock {
		if !force {
			return nil, 0
		}
		simClock = tm.at
		timerStats.jumped++
	} else {
		timerStats.due++
	}
	tm.live = false
	ch := tm.ch
	tm.ch = nil
	st.stuck = 0
	return ch, simClock
}

//go:norace
//go:noinline
func everybodyStuck() bool { return !multiTask() || st.stuck > st.ntasks }

//go:norace
//go:noinline
func timersReset() {
	for t := range simTimers {
		for i := range simTimers[t] {
			simTimers[t][i] = simTimer{}
		}
	}
}

// timersPoll fires the running task's timers that are due (all of them), or with
// force the earliest pending one; it reports whether anything fired.
func timersPoll(force bool) bool {
	fired := false
	for {
		ch, now := timerPick(force && !fired)
		if ch == nil {
			return fired
		}
		select {
		case ch <- time.Unix(0, now).UTC():
		default:
		}
		fired = true
	}
}

// DeadlockHook is called when every unfinished task is blocked.  The harness
// replaces it; the default terminates the process with a recognisable line.
var DeadlockHook = func() {
	fatal("deadlock: every unfinished task is blocked")
}

// OnceDo is the shim for sync.Once.Do: no pre-emption inside f, because another
// task calling Do would block for real inside the Once.
func OnceDo(do func(func()), f func()) {
	do(func() {
		noPreempt(1)
		defer noPreempt(-1)
		f()
	})
}

//go:norace
//go:noinline
func noPreempt(d int) { st.noPreempt += d }

//go:norace
//go:noinline
func isActive() bool { return st.active }

// Note mixes a harness-supplied value (an operation result digest) into the
// event-log fingerprint.  Called by the token holder only.
//
//go:norace
//go:noinline
func Note(v uint64) {
	if !st.active {
		return
	}
	st.res.FP = mix(st.res.FP, v^uint64(st.cur)<<56)
}

// CurTask returns the running task index (0 when inactive).
//
//go:norace
//go:noinline
func CurTask() int { return st.cur }

//go:norace
//go:noinline
func setActive(b bool) { st.active = b }

//go:norace
//go:noinline
func finish() Result {
	st.res.Yields = st.total
	for t := 0; t < st.ntasks; t++ {
		st.res.PerTask[t] = st.yields[t]
		st.res.HotYields[t] = st.hotcnt[t]
		st.res.MapRanges += st.mapcnt[t]
	}
	return st.res
}

// Run executes the tasks under the scheduler described by cfg and returns once
// all of them have finished.  Must be called from a goroutine that is not a task.
func Run(cfg Config, tasks []func()) Result {
	n := len(tasks)
	if n == 0 {
		return Result{}
	}
	if n > MaxTasks {
		panic("simrt: too many tasks")
	}
	begin(cfg, n)
	noteSeqGoid()
	if n == 1 {
		setCur(0)
		setActive(true)
		func() {
			defer setActive(false)
			tasks[0]()
		}()
		return finish()
	}
	dones := make([]chan struct{}, n)
	for i := range tasks {
		dones[i] = make(chan struct{})
		go func(t int, f func(), done chan struct{}) {
			taskStartWait(t)
			defer close(done)
			defer taskEnd(t)
			f()
		}(i, tasks[i], dones[i])
	}
	first := firstTask()
	setCur(first)
	setActive(true)
	startAndWait(first)
	setActive(false)
	for _, d := range dones {
		<-d
	}
	return finish()
}

// RunSeq executes the tasks one after the other on the calling goroutine
// ("sequential use"), with the simulation active so that yields are counted and
// the map order seen by task t is the same function of (MapSeed, t, n-th range)
// as in a concurrent Run with the same Config.
func RunSeq(cfg Config, tasks []func()) Result {
	n := len(tasks)
	if n == 0 {
		return Result{}
	}
	if n > MaxTasks {
		panic("simrt: too many tasks")
	}
	begin(cfg, n)
	noteSeqGoid()
	setSeq(true)
	for t := range tasks {
		setCur(t)
		setActive(true)
		func() {
			defer setActive(false)
			tasks[t]()
		}()
	}
	setSeq(false)
	return finish()
}

//go:norace
//go:noinline
func setSeq(b bool) { st.seq = b }

//go:norace
//go:noinline
func noteSeqGoid() {
	if st.checkGoid {
		st.seqGoid = curGoid()
	}
}

//go:norace
//go:noinline
func setCur(t int) { st.cur = t }

//go:norace
//go:noinline
func firstTask() int { return highest(-1) }

//go:norace
//go:noinline
func startAndWait(first int) {
	rawWrite(st.pipes[first].w)
	rawRead(st.mainPipe.r)
}

// Hits returns the ids of the instrumented sites executed so far in this process
// while a simulation was active, and the number of harness I/O yields.
func Hits() ([]uint32, uint64) {
	var out []uint32
	for i := range hits {
		if hitAt(i) != 0 {
			out = append(out, uint32(i))
		}
	}
	return out, ioCount()
}

//go:norace
//go:noinline
func hitAt(i int) uint32 { return hits[i] }

//go:norace
//go:noinline
func ioCount() uint64 { return ioHits }

// ---------------------------------------------------------------------------
// Map order seam.

//go:norace
//go:noinline
func mapOrder(n int) (policy int, seed uint64) {
	if !st.active {
		return MapCanonical, 0
	}
	if st.checkGoid && foreignCaller() {
		return MapCanonical, 0
	}
	t := st.cur
	c := st.mapcnt[t]
	st.mapcnt[t] = c + 1
	if st.cfg.MapPolicy != MapPermuted {
		return st.cfg.MapPolicy, 0
	}
	h := mix(st.cfg.MapSeed, uint64(t)<<48^c)
	return MapPermuted, h
}

type keyed[K comparable] struct {
	k  K
	kd int // 0 int, 1 uint, 2 string, 3 other
	i  int64
	u  uint64
	s  string
}

// MapSeq replaces `range m` for every map in the instrumented copy: it yields
// the entries of m in an order chosen by the simulator.  The map itself is read
// with ordinary (race-instrumented) operations.
func MapSeq[M ~map[K]V, K comparable, V any](m M) iter.Seq2[K, V] {
	return func(yield func(K, V) bool) {
		if len(m) == 0 {
			// still a range execution as far as the order stream is concerned
			mapOrder(0)
			return
		}
		ks := make([]keyed[K], 0, len(m))
		for k := range m {
			e := keyed[K]{k: k}
			rv := reflect.ValueOf(k)
			switch rv.Kind() {
			case reflect.Int, reflect.Int8, reflect.Int16, reflect.Int32, reflect.Int64:
				e.kd, e.i = 0, rv.Int()
			case reflect.Uint, reflect.Uint8, reflect.Uint16, reflect.Uint32, reflect.Uint64, reflect.Uintptr:
				e.kd, e.u = 1, rv.Uint()
			case reflect.String:
				e.kd, e.s = 2, rv.String()
			default:
				e.kd, e.s = 3, fmt.Sprintf("%#v", k)
			}
			ks = append(ks, e)
		}
		sort.SliceStable(ks, func(a, b int) bool {
			x, y := ks[a], ks[b]
			if x.kd != y.kd {
				return x.kd < y.kd
			}
			switch x.kd {
			case 0:
				return x.i < y.i
			case 1:
				return x.u < y.u
			default:
				return x.s < y.s
			}
		})
		pol, seed := mapOrder(len(ks))
		switch pol {
		case MapReversed:
			for i, j := 0, len(ks)-1; i < j; i, j = i+1, j-1 {
				ks[i], ks[j] = ks[j], ks[i]
			}
		case MapPermuted:
			x := seed
			for i := len(ks) - 1; i > 0; i-- {
				j := int(SplitMixNext(&x) % uint64(i+1))
				ks[i], ks[j] = ks[j], ks[i]
			}
		}
		for _, e := range ks {
			v, ok := m[e.k]
			if !ok {
				continue
			}
			if !yield(e.k, v) {
				return
			}
		}
	}
}

// SplitMixNext advances a caller-owned splitmix64 state.
func SplitMixNext(x *uint64) uint64 {
	*x += 0x9e3779b97f4a7c15
	z := *x
	z = (z ^ (z >> 30)) * 0xbf58476d1ce4e5b9
	z = (z ^ (z >> 27)) * 0x94d049bb133111eb
	return z ^ (z >> 31)
}
