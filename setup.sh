#!/bin/bash
# Offline setup: build the instrumenter and warm the Go build cache (std with and
# without -race, the harness dependencies).  Uses files on disk only.
set -e
export GOFLAGS=-mod=mod GOPROXY=off GOSUMDB=off GOTOOLCHAIN=local
cd "$(dirname "$0")"
mkdir -p bin evidence replays
(cd sim/cvssinst && go build -o ../../bin/cvssinst .)
(cd sim/simrt && go build ./... && go build -race -o /dev/null ./selftest && go build -o /dev/null ./selftest)
(cd sim/cvsssim && go build -o /dev/null . && go build -race -o /dev/null .)
echo "setup ok"
